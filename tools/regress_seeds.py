#!/usr/bin/env python3
"""Re-run every kept seeded change against the current checks: tools/regress_seeds.py [id ...]

For each /verif/seeded/<id>/: apply patch.diff to /repo, run the checks recorded in meta.json (quick tier), undo the patch,
and update meta.json["checks"] / ["detected_by"].  Prints one line per change; exit 1 if a change is no longer detected by
the check of the property it targets.  Nothing else may use /repo while this runs.
"""
import json
import os
import subprocess
import sys
import time

ENV = dict(os.environ, OMP_NUM_THREADS="1", MKL_NUM_THREADS="1", PYTHONWARNINGS="ignore", VERIF_EVIDENCE_DIR="/tmp/verif_seed_evidence")
ROOT = "/verif/seeded"


def sh(cmd, cwd=None, timeout=3600):
    r = subprocess.run(cmd, shell=True, cwd=cwd, capture_output=True, text=True, timeout=timeout, env=ENV)
    return r.returncode, r.stdout + r.stderr


def main():
    ids = sys.argv[1:] or sorted(d for d in os.listdir(ROOT) if os.path.isdir(os.path.join(ROOT, d)))
    rc, txt = sh("git -C /repo status --short")
    if txt.strip():
        print("repo not clean:", txt)
        sys.exit(2)
    missed = []
    for sid in ids:
        d = os.path.join(ROOT, sid)
        meta = json.load(open(os.path.join(d, "meta.json")))
        prop = meta["breaks_property"]
        checks = list((meta.get("checks") or {prop: None}).keys())
        if prop not in checks:
            checks.insert(0, prop)
        rc, txt = sh("git -C /repo apply %s" % os.path.join(d, "patch.diff"))
        if rc != 0:
            print("%s: patch does not apply: %s" % (sid, txt.strip()[:200]))
            missed.append(sid)
            continue
        out = {}
        try:
            for c in checks:
                t = time.time()
                rcc, tc = sh("./check %s" % c, cwd="/verif", timeout=3000)
                viol = sorted({ln.split("replay=")[0].strip() + " " + ln.split("/")[-1] for ln in tc.splitlines() if ln.startswith("VIOLATION")})
                summ = [ln for ln in tc.splitlines() if ln.startswith(c + " tier=")]
                out[c] = {"exit": rcc, "violation_lines": viol[:6], "summary": summ[-1] if summ else "", "seconds": round(time.time() - t, 1)}
        finally:
            sh("git -C /repo checkout -- .")
            sh("rm -rf /verif/replays")
        meta["checks"] = out
        meta["detected_by"] = [c for c, v in out.items() if v["exit"] == 1]
        json.dump(meta, open(os.path.join(d, "meta.json"), "w"), indent=1)
        ok = prop in meta["detected_by"]
        print("%s: %s  %s" % (sid, "detected by " + ",".join(meta["detected_by"]) if meta["detected_by"] else "NOT DETECTED", " ".join("%s=%d(%ss)" % (c, v["exit"], v["seconds"]) for c, v in out.items())), flush=True)
        if not ok:
            missed.append(sid)
    print("missed by own check:", missed)
    sys.exit(1 if missed else 0)


if __name__ == "__main__":
    main()
