#!/usr/bin/env python3
"""Evaluate one seeded change: tools/try_seed.py <prop> <dir> <i> [--checks C01,C02] [--tests]

<dir>/mut<i>.diff, demo<i>.py, meta<i>.json come from an independent sub-agent.  Steps (all against /repo itself):
  1. demo passes on the clean tree; apply the patch; demo fails
  2. (optional --tests) the pinned test suite still passes with the patch
  3. run the listed checks (default: the property's own) in quick tier and record exit codes / VIOLATION lines
  4. undo the patch (git checkout) and copy the artefacts to /verif/seeded/<prop>_<i>/ with a meta.json
"""
import argparse
import json
import os
import shutil
import subprocess
import sys
import time

ENV = dict(os.environ, OMP_NUM_THREADS="1", MKL_NUM_THREADS="1", PYTHONWARNINGS="ignore", VERIF_EVIDENCE_DIR="/tmp/verif_seed_evidence")


def sh(cmd, cwd=None, timeout=3600):
    r = subprocess.run(cmd, shell=True, cwd=cwd, capture_output=True, text=True, timeout=timeout, env=ENV)
    return r.returncode, (r.stdout + r.stderr)


def main():
    ap = argparse.ArgumentParser()
    ap.add_argument("prop")
    ap.add_argument("dir")
    ap.add_argument("i")
    ap.add_argument("--checks", default=None)
    ap.add_argument("--tests", action="store_true", default=True)
    ap.add_argument("--tier", default="quick")
    ap.add_argument("--as", dest="as_index", default=None, help="index under /verif/seeded (default: i)")
    a = ap.parse_args()
    patch = os.path.join(a.dir, "mut%s.diff" % a.i)
    demo_src = os.path.join(a.dir, "demo%s.py" % a.i)
    # run the demonstration from a neutral directory: python puts the script's directory first on sys.path, and
    # the sub-agent's worktree contains its own copy of nflows
    os.makedirs("/tmp/seed_demo_run", exist_ok=True)
    demo = "/tmp/seed_demo_run/demo_%s_%s.py" % (a.prop, a.i)
    shutil.copy(demo_src, demo)
    meta_in = os.path.join(a.dir, "meta%s.json" % a.i)
    checks = (a.checks or a.prop).split(",")
    out = {"property": a.prop, "patch": patch, "ran": []}
    rc, txt = sh("git -C /repo status --short")
    if txt.strip():
        print("repo not clean:", txt)
        sys.exit(2)
    rc0, t0 = sh("/venv/bin/python %s" % demo, cwd="/tmp", timeout=900)
    out["demo_clean_exit"] = rc0
    out["ran"].append("/venv/bin/python %s  (clean tree) -> exit %d" % (demo, rc0))
    rc, txt = sh("git -C /repo apply %s" % patch)
    if rc != 0:
        print("patch does not apply:", txt)
        sys.exit(2)
    try:
        rc1, t1 = sh("/venv/bin/python %s" % demo, cwd="/tmp", timeout=900)
        out["demo_patched_exit"] = rc1
        out["demo_patched_tail"] = t1.strip()[-300:]
        out["ran"].append("git -C /repo apply %s; /venv/bin/python %s -> exit %d" % (patch, demo, rc1))
        if a.tests:
            rct, tt = sh("/venv/bin/python -m pytest -q -p no:cacheprovider --timeout=900 2>&1 | tail -2", cwd="/repo", timeout=3000)
            out["tests_tail"] = tt.strip()[-200:]
            out["ran"].append("cd /repo && pytest -q (patched) -> %s" % tt.strip().splitlines()[-1] if tt.strip() else "")
        out["checks"] = {}
        for c in checks:
            t = time.time()
            rcc, tc = sh("VERIF_TIER=%s ./check %s --tier %s" % (a.tier, c, a.tier), cwd="/verif", timeout=3000)
            viol = sorted({ln.split("replay=")[0].strip() + " " + ln.split("/")[-1] for ln in tc.splitlines() if ln.startswith("VIOLATION")})
            summ = [ln for ln in tc.splitlines() if ln.startswith(c + " tier=")]
            out["checks"][c] = {"exit": rcc, "violation_lines": viol[:6], "summary": summ[-1] if summ else "", "seconds": round(time.time() - t, 1)}
            out["ran"].append("./check %s --tier %s (patched) -> exit %d, %d VIOLATION lines" % (c, a.tier, rcc, len(viol)))
    finally:
        sh("git -C /repo checkout -- .")
        sh("rm -rf /verif/replays")
    out["detected_by"] = [c for c, v in out.get("checks", {}).items() if v["exit"] == 1]
    dest = os.path.join("/verif/seeded", "%s_%s" % (a.prop, a.as_index or a.i))
    os.makedirs(dest, exist_ok=True)
    shutil.copy(patch, os.path.join(dest, "patch.diff"))
    shutil.copy(demo_src, os.path.join(dest, "demo.py"))
    meta = {}
    if os.path.exists(meta_in):
        try:
            meta = json.load(open(meta_in))
        except Exception:
            meta = {"raw": open(meta_in).read()[:2000]}
    meta_out = {"breaks_property": a.prop, "from_subagent": meta, "confirmed": {"demo_exit_clean_tree": rc0, "demo_exit_with_change": out.get("demo_patched_exit"), "tests": out.get("tests_tail")}, "what_we_ran": out["ran"], "checks": out.get("checks"), "detected_by": out["detected_by"]}
    json.dump(meta_out, open(os.path.join(dest, "meta.json"), "w"), indent=1)
    print(json.dumps({"prop": a.prop, "i": a.i, "demo_clean": rc0, "demo_patched": out.get("demo_patched_exit"), "tests": out.get("tests_tail"), "checks": out.get("checks"), "detected_by": out["detected_by"]}, indent=1))


if __name__ == "__main__":
    main()
