#!/bin/bash
# tools/run_all.sh [quick|thorough] [Cxx ...]: run the registered checks one after the other (each uses all cores),
# one summary line per check in /verif/.run_all.log; exit 1 if any check did not exit 0.
cd "$(dirname "$0")/.."
tier=${1:-quick}; shift
checks=${@:-C01 C02 C03 C04 C05 C06 C07 C08 C09 C10 C11 C12 C13 C14 C15 C16 C17 C18 C20}
log=.run_all.log; : > $log; bad=0
for c in $checks; do
  s=$(date +%s)
  VERIF_PROGRESS=0 ./check $c --tier $tier > .run_all.$c.out 2>&1; rc=$?
  echo "$c exit $rc $(( $(date +%s) - s ))s $(grep -E "^$c tier=" .run_all.$c.out | tail -1)" | tee -a $log
  [ $rc -ne 0 ] && bad=1
  rm -f .run_all.$c.out
done
exit $bad
