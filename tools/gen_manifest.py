#!/usr/bin/env python3
"""Regenerates /verif/MANIFEST.json from the table below (kept here so the manifest stays consistent)."""
import json
import os

ROOT = os.path.dirname(os.path.dirname(os.path.abspath(__file__)))

COMMON_NOTE = (
    "trusted base: z3 (nlsat / LIA), the symbolic tensor op table (validated differentially against real torch on every run), "
    "the exp/log/softplus/sqrt abstraction of DESIGN 3.2, real torch's nn.Module plumbing; exact real arithmetic - rounding is outside the claim"
)

CHECKS = {
    "C09": {
        "category": "other",
        "text": "bounded symbolic verification: the real spline functions run on symbolic tensors (all parameters, box / tail bound and input symbolic); per path z3 (QF_NRA) decides dy/dx > 0, range, end-point pinning, tail identity and pairwise continuity, for every value within the stated bin-count bound. Not a proof: bins <= 2 (quick) / 3 (thorough), real arithmetic.",
        "design_ref": "DESIGN.md section 6, C09",
        "technique": "symbolic execution of the real source on symbolic tensors + z3 nlsat (QF_NRA) per path",
    },
}

CHECKS["C01"] = {
    "category": "other",
    "text": "bounded symbolic verification: every catalogued transform configuration (harness/cases.py) and the four spline functions with a symbolic box run their real forward on symbolic tensors whose inputs carry dual numbers; per path z3 decides exp(logabsdet)^2 == det(J)^2 (J = dual-number Jacobian of the map actually computed) and every side obligation (divisors, log/sqrt arguments). Bounded: one batch row, <= 3 features, bins <= 2 (quick) / 3 (thorough), real arithmetic; UMNN outside.",
    "design_ref": "DESIGN.md section 6, C01",
    "technique": "symbolic execution of the real forward with dual numbers + polynomial normalisation + z3 nlsat (QF_NRA/QF_UFNRA)",
}

CHECKS["C06"] = {
    "category": "other",
    "text": "exhaustive over a grid of architectures (features x hidden x blocks x block type x mask type x context x multiplier x batch-norm/dropout, both MADE copies and the mixture-of-Gaussians MADE): the real constructors and forward passes run on taint elements; with random masks the degrees are symbolic integers and z3 (QF_LIA) decides 'no output unit depends on an input >= its feature' for every draw; structural, i.e. for all weights. Extra jobs judge the second pass after all parameters were replaced following a first evaluation.",
    "design_ref": "DESIGN.md section 6, C06",
    "technique": "taint-domain symbolic execution of the real MADE code + z3 QF_LIA over symbolic mask degrees",
}
CHECKS["C07"] = {
    "category": "other",
    "text": "the real coupling constructors and passes run inside the explorer on a fully symbolic mask (every sign pattern is a path, mask values arbitrary reals), 2-D and image inputs, both directions: identity outputs are syntactically the input terms, the recording conditioner stub received exactly the identity features and the context, transformed outputs have zero dual parts w.r.t. other transformed inputs and (affine/additive) positive own derivative (z3).",
    "design_ref": "DESIGN.md section 6, C07",
    "technique": "symbolic execution with a symbolic mask (path per sign pattern), uninterpreted conditioner, dual numbers; z3 for path feasibility and monotonicity",
}
CHECKS["C08"] = {
    "category": "other",
    "text": "composite / inverse / nested wrappers over non-commuting library affine stages with symbolic parameters are compared term-wise (syntactic, else polynomial identity by z3) with the stages chained by hand; the multiscale transform is compared with a reference routing model and inverted, exhaustively over shapes, split dimensions and stage counts within the bound.",
    "design_ref": "DESIGN.md section 6, C08",
    "technique": "symbolic execution of the real wrappers on symbolic tensors; term identity / z3 polynomial identity against hand-chained real stages",
}
CHECKS["C18"] = {
    "category": "other",
    "text": "the real sample / sample_and_log_prob / log_prob interface of distributions and flows runs on symbolic contents (each noise draw a fresh symbol) for every (num_samples, batch_size, context rows) within the bound; shapes, the draw/context-row pairing, batched == unbatched structure and the ValueError/TypeError contract are decided on the resulting terms.",
    "design_ref": "DESIGN.md section 6, C18",
    "technique": "symbolic execution with stubbed random sources; exhaustive enumeration of the integer arguments, term-level pairing checks",
}
CHECKS["C20"] = {
    "category": "other",
    "text": "the real helper functions on symbolic tensors: index formulas of tile/repeat_rows/merge/split/sum_except_batch as term identities over all small shapes, searchsorted bracket (QF_NRA) and IEEE bin-index range (QF_FP, float32/float64), cbrt and logabsdet identities (QF_NRA), mask constructors over all symbolic draws, argument immutability from the engine's write log, type predicates by CrossHair. get_temperature is decided for every max_value > 0 and bound in (0,1).",
    "design_ref": "DESIGN.md section 6, C20",
    "technique": "symbolic execution + z3 (QF_NRA, QF_FP) + CrossHair on the pure-Python predicates",
}

CHECKS["C04"] = {
    "category": "other",
    "text": "structural half of the property: the real Flow sampling / density code runs on symbolic noise (fresh symbol per draw), symbolic context rows, an uninterpreted row-wise bijection with its inverse axioms and an uninterpreted embedding net; sample[i,j] == T^-1(noise_r, E(c_i)), logp[i,j] == base_log_prob(noise_r) - lad_inv, log_prob(sample) == returned logp, sample() structure and transform_to_noise are decided as term identities for all (rows, draws, features) in the bound. The statistical convergence is a corollary, not queried.",
    "design_ref": "DESIGN.md section 6, C04",
    "technique": "symbolic execution with uninterpreted transform / embedding and stubbed randn; term identities (z3 for polynomial ones)",
}
CHECKS["C10"] = {
    "category": "model_checking",
    "text": "inductive model checking of the cache state machine on the real classes: every (abstract state satisfying the invariant) x (operation) is executed with the real code on symbolic parameters; z3 decides that outputs equal the uncached recomputation at the current parameters and that the invariant (non-empty slots equal their accessors, empty in training) is re-established - one step covers histories of every length. Random concrete histories are replayed against the real classes as trace validation. Operations include a state-dict load through an enclosing module.",
    "design_ref": "DESIGN.md section 6, C10",
    "technique": "inductive-step symbolic model checking (symbolic pre-state + one real operation) with z3 polynomial identities",
}
CHECKS["C17"] = {
    "category": "other",
    "text": "path classification of the real domain checks on a fully symbolic input (accepted => in domain, rejected => out of domain, no other exception in domain, all finiteness obligations) for Exp/Tanh/Sigmoid/Logit/CauchyCDF and the spline families in both directions with symbolic box / tail bound (QF_NRA), plus the IEEE (QF_FP, float32/float64) execution of the real searchsorted behind the closed-interval test: bin index in [0, K-1] for every float and every bound magnitude.",
    "design_ref": "DESIGN.md section 6, C17",
    "technique": "symbolic path classification with z3 nlsat + QF_FP execution of the bin-search kernel",
}

CHECKS["C02"] = {
    "category": "other",
    "text": "bounded symbolic verification of both round trips and of the log-abs-det negation: every catalogued module and the spline functions (symbolic box / tail bound) are explored as composed runs inverse(forward(x)) / forward(inverse(y)) - every feasible pairing of forward and inverse paths is its own path - with identities normalised to polynomials (sqrt atoms reduced) and decided by z3; 'every number finite' = all side obligations of the stand-alone runs of both directions valid under the documented parameter ranges (lazy cuts for radical quotients). Spline inverse o forward is a corollary of forward o inverse + monotonicity (C09) + the proven inverse-range lemma. Cubic inverse and UMNN outside.",
    "design_ref": "DESIGN.md section 6, C02",
    "technique": "composed symbolic execution of the real forward/inverse + polynomial normalisation + z3 nlsat, lemma-based pruning",
}
CHECKS["C11"] = {
    "category": "other",
    "text": "accessor identities of LU / QR / SVD / naive / Householder parameterisations (forward == W x + b, W W^-1 == I, exp(logabsdet)^2 == det^2, combined accessors, inverse, Q^T Q == I) as polynomial identities over fully symbolic parameters decided by z3; every constructor-accepted size / initialisation mode evaluated concretely at its initial parameters (finite, invertible).",
    "design_ref": "DESIGN.md section 6, C11",
    "technique": "symbolic execution of the real accessors + z3 polynomial identities; concrete evaluation of initial states",
}
CHECKS["C14"] = {
    "category": "model_checking",
    "text": "inductive model checking of the ActNorm / BatchNorm life-cycle: every (training, initialised) abstract state x operation (train, eval, forward, inverse, save+load) x batch shape runs the real code on symbolic state and is compared with a reference transition function written from the docstrings (initialisation iff training and not initialised, zero mean / unit unbiased variance afterwards, momentum rule, running statistics only in training forwards, inverse refused in training); identities decided by z3; random concrete histories validated against the reference. 48 extra bounded histories restore a kept state_dict() snapshot into a fresh layer.",
    "design_ref": "DESIGN.md section 6, C14",
    "technique": "inductive-step symbolic model checking against a reference transition function, z3 polynomial identities with sqrt reduction",
}

CHECKS["C03"] = {
    "category": "other",
    "text": "the property's own decomposition, each lemma decided by z3 on the real code: (1) Flow._log_prob is exactly base_log_prob(T(x,E(c))|E(c)) + logabsdet (term identity with uninterpreted transform/embedding), (2) every 1-D transformer is onto its target (end-points pinned, continuous across knots and at the tail junction, strictly increasing) and affine / linear / coupling / autoregressive maps have a total inverse with forward(inverse(y)) == y, (3) the base log-density is the Gaussian closed form with normaliser (D/2)log(2 pi). Change of variables and the Gaussian integral are named assumptions; the Jacobian part is C01.",
    "design_ref": "DESIGN.md section 6, C03",
    "technique": "decomposition into solver-decidable lemmas (term identity, z3 nlsat for onto-ness, polynomial identities) over the real code",
}
CHECKS["C05"] = {
    "category": "other",
    "text": "closed forms of the real log-densities as identities decided by z3: exact summation over {0,1}^D for the Bernoulli (and E[x]==mean()), Gaussian variable part + numerically checked constant for Standard/Diagonal/ConditionalDiagonal normals over event shapes [1],[2],[2,1], sampling structure log_prob(mu+sigma z)==logN(z)-sum log sigma, mean() value and shape, the MADE mixture density against prod_d sum_k pi N with the [N,F,M,3] layout; the KDE evaluator's constant and term evaluated against the mixture reference. uniform.py outside. The MADE-mixture sampler runs symbolically too (draw == mean + z*std of the chosen component, the density's own terms).",
    "design_ref": "DESIGN.md section 6, C05",
    "technique": "symbolic execution of the real log_prob / sample / mean + z3 polynomial identities in exp-atoms",
}
CHECKS["C12"] = {
    "category": "other",
    "text": "every catalogued transform (both directions), base distributions and a flow on a two-row batch of distinct symbols: on every feasible path (incl. all inside/outside patterns of spline tails) row r of the results mentions row r's symbols only, row 1 is row 0 renamed on mirrored paths, and the one-row run agrees; the library's own networks (ResidualNet, ConvResidualNet, MADE with batch-norm) run in a row-tagged taint domain.",
    "design_ref": "DESIGN.md section 6, C12",
    "technique": "symbolic execution on a two-row symbolic batch; term-level dependency / renaming checks per path (z3 for path feasibility); taint domain for library networks",
}
CHECKS["C13"] = {
    "category": "other",
    "text": "forward / inverse / log_prob / sample / transform_to_noise of every catalogued object on symbolic tensors with the caller's input passed as a view into a larger tensor: caller tensors (through view aliasing), all parameters and buffers are term-identical afterwards in eval mode, a repeated call returns identical terms, and in training mode only the documented normalisation statistics change; every in-place write is logged by the engine with the array it lands on.",
    "design_ref": "DESIGN.md section 6, C13",
    "technique": "symbolic execution with a mutation log and before/after term comparison per feasible path",
}
CHECKS["C15"] = {
    "category": "other",
    "text": "two real models built under different seeds, the second loaded from the first with the real state_dict / load_state_dict, all floating-point state shared as symbols: A(x)==B(x) for forward, inverse and log_prob decided per path by z3 - anything function-determining that does not travel in the state dict makes the terms differ. Seeds are sampled (2 / 5 pairs); parameters and inputs are symbolic.",
    "design_ref": "DESIGN.md section 6, C15",
    "technique": "differential symbolic execution of two real model instances with shared symbolic state + z3 polynomial identities",
}
CHECKS["C16"] = {
    "category": "other",
    "text": "PARTIAL: dual-number seeds on every input, context and parameter element carried through the real code (detach / .data / no_grad clear them): per path, no result depends on a seed without carrying a derivative w.r.t. it, and derivative-side finiteness obligations are decided by z3; the dual values are validated against torch.autograd on the real modules at random points (which also shows backward succeeds and every used parameter receives a finite gradient). Autograd-internal failure modes beyond those points and UMNN are outside.",
    "design_ref": "DESIGN.md section 6, C16",
    "technique": "forward-mode dual-number symbolic execution (gradient-flow check) + z3 obligations + autograd trace validation",
}

NOT_APPLICABLE = {
    "C19": "float32-vs-float64 agreement needs QF_FP terms for chains of mul/div/sqrt/exp/log at two precisions; a 6-op representative was undecided in 60 s by z3 5.1, cvc5 1.0.3 and cvc5 1.4.0, and exp/log have no FP theory (DESIGN section 7)",
}

PENDING_REASON = "check not built yet in this round (planned in DESIGN section 6); not claimed until it exists"

ALL = ["C%02d" % i for i in range(1, 21)]


def main():
    checks = []
    for pid in ALL:
        if pid not in CHECKS:
            continue
        c = CHECKS[pid]
        checks.append(
            {
                "property_id": pid,
                "quick_cmd": "./check %s --tier quick" % pid,
                "thorough_cmd": "./check %s --tier thorough" % pid,
                "evidence_file": "/verif/evidence/%s.json" % pid,
                "replay_cmd_template": "./check --replay {path}",
                "engine": "symtorch",
                "level_claimed": {"category": c["category"], "text": c["text"], "design_ref": c["design_ref"]},
                "level_note": c.get("note", COMMON_NOTE),
                "technique": c["technique"],
            }
        )
    na = []
    for pid in ALL:
        if pid in CHECKS:
            continue
        na.append({"property_id": pid, "reason": NOT_APPLICABLE.get(pid, PENDING_REASON)})
    m = {
        "version": 1,
        "setup_cmd": "./setup.sh",
        "hooks": {
            "guard": "NFLOWS_VERIF",
            "enable": "no source hooks are needed: checks import /repo's working tree directly (nflows is an editable install in /venv), so the encoding is regenerated from the current source on every run",
            "baseline_off_cmd": "cd /repo && /venv/bin/python -m pytest -q -p no:cacheprovider --timeout=900",
            "source_commits": [],
            "add_only": True,
        },
        "engines": [
            {
                "name": "symtorch",
                "path": "/verif/symtorch",
                "serves_properties": sorted(CHECKS),
                "kind_free_text": "symbolic execution of the unmodified nflows source on duck-typed symbolic tensors (__torch_function__), path forking, SMT-LIB2 emission, z3 (nlsat/LIA/FP) child processes with hard timeouts",
            }
        ],
        "checks": checks,
        "not_applicable": na,
        "notes": "exit codes: 0 held, 1 violation (reproduced on real torch before being printed), 2 inconclusive/harness error. known_findings.json lists recorded defects.",
    }
    with open(os.path.join(ROOT, "MANIFEST.json"), "w") as f:
        json.dump(m, f, indent=1)
    print("wrote MANIFEST.json with %d checks, %d not_applicable" % (len(checks), len(na)))


if __name__ == "__main__":
    main()
