#!/usr/bin/env python3
"""Regenerates /verif/seeded/RESULTS.md from the meta.json of every kept seeded change."""
import glob
import json
import os

ROOT = os.path.dirname(os.path.dirname(os.path.abspath(__file__)))
rows = []
for d in sorted(glob.glob(os.path.join(ROOT, "seeded", "*", "meta.json"))):
    m = json.load(open(d))
    sub = m.get("from_subagent", {})
    name = os.path.basename(os.path.dirname(d))
    what = (sub.get("what_it_breaks") or "")[:150].replace("|", "/").replace("\n", " ")
    needs = (sub.get("needs_to_manifest") or "")
    if isinstance(needs, (list, dict)):
        needs = json.dumps(needs)
    needs = needs[:150].replace("|", "/").replace("\n", " ")
    conf = m.get("confirmed", {})
    checks = m.get("checks") or {}
    ran = ", ".join("%s:exit %s" % (c, v.get("exit")) for c, v in checks.items())
    rows.append("| %s | %s | %s | %s | demo %s→%s; tests: %s | %s | **%s** |" % (name, m.get("breaks_property"), what, needs, conf.get("demo_exit_clean_tree"), conf.get("demo_exit_with_change"), (conf.get("tests") or "").splitlines()[-1][:40] if conf.get("tests") else "n/a", ran, ", ".join(m.get("detected_by") or []) or "MISSED"))
with open(os.path.join(ROOT, "seeded", "RESULTS.md"), "w") as f:
    f.write("# Seeded changes and the checks that catch them\n\nEach change was written by an independent sub-agent that saw only the property text; it was applied to /repo (`git apply`), the demonstration and the pinned test suite were run, then the listed checks (quick tier), and the patch was undone.\n\n")
    f.write("| change | property | what it breaks | needs | confirmed | checks run | detected by |\n|---|---|---|---|---|---|---|\n")
    f.write("\n".join(rows) + "\n")
print("%d seeded changes" % len(rows))
