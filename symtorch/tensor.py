"""`Sym`: a duck-typed tensor (NumPy object ndarray of scalars `S`) that receives every torch.* / F.*
call through `__torch_function__`, so that the unmodified nflows source runs on symbolic values.

NumPy supplies shapes, broadcasting, indexing and view aliasing (slices / reshape / transpose alias their
base like torch views do), so in-place writes through views behave as in torch.
"""
from fractions import Fraction
import math
import operator

import numpy as np
import torch

from . import term as tm
from . import scalars as sc
from .scalars import S
from . import explore
from .explore import NotModelled
from .taint import TS


class Config:
    bool_to_num = "fork"  # "fork": a symbolic bool converted to a number forks the path; "ite": becomes ite(b,1,0)
    simplex_shortcut = True  # softmax / softplus / sigmoid of free parameters become constrained variables
    float_bits = 24  # precision at which real float32 tensors are read


CFG = Config()

_ZERO = S(tm.ZERO)
_ONE = S(tm.ONE)
_IZERO = S(tm.IZERO)


def _obj(x):
    """nested python structure / ndarray of scalars -> object ndarray of S."""
    if isinstance(x, np.ndarray) and x.dtype == object:
        return x
    if isinstance(x, (S, TS)):
        a = np.empty((), dtype=object)
        a[()] = x
        return a
    arr = np.asarray(x)
    if arr.dtype == object:
        out = np.empty(arr.shape, dtype=object)
        for idx in np.ndindex(arr.shape):
            e = arr[idx]
            out[idx] = e if isinstance(e, (S, TS)) else sc.lift_num(e)
        return out
    out = np.empty(arr.shape, dtype=object)
    flat = out.reshape(-1) if out.ndim else None
    if arr.ndim == 0:
        out[()] = sc.lift_num(arr[()])
        return out
    src = arr.reshape(-1)
    for i in range(src.shape[0]):
        flat[i] = sc.lift_num(src[i])
    return out


def _from_torch(t):
    t = t.detach()
    if t.dtype == torch.bool:
        return _obj(t.numpy().astype(bool))
    if t.dtype in (torch.int64, torch.int32, torch.int16, torch.int8, torch.uint8):
        return _obj(t.numpy().astype(np.int64))
    if t.dtype == torch.float64:
        return _obj(t.numpy().astype(np.float64))
    if t.dtype in (torch.float32, torch.float16, torch.bfloat16):
        return _obj(t.float().numpy().astype(np.float32))
    raise NotModelled("tensor dtype %s" % t.dtype)


def arr(x):
    """anything tensor-like -> object ndarray of S."""
    if isinstance(x, Sym):
        return x.a
    if isinstance(x, torch.Tensor):
        return _from_torch(x)
    if isinstance(x, S):
        return _obj(x)
    if isinstance(x, np.ndarray):
        return _obj(x)
    if isinstance(x, (list, tuple)):
        if any(isinstance(e, (Sym, torch.Tensor)) for e in x):
            return np.stack([arr(e) for e in x])
        return _obj(x)
    if sc._is_num(x):
        return _obj(sc.lift_num(x))
    raise NotModelled("cannot lift %r" % type(x))


def lift(x):
    return x if isinstance(x, Sym) else Sym(arr(x))


def _fix(a):
    """make sure every element is an S (reductions over empty axes yield python ints)."""
    if not isinstance(a, np.ndarray):
        a = _obj(a if isinstance(a, S) else sc.lift_num(a))
    elif a.dtype != object:
        a = _obj(a)
    else:
        for idx in np.ndindex(a.shape):
            if not isinstance(a[idx], (S, TS)):
                a[idx] = sc.lift_num(a[idx])
    return a


def _taint_join(xs):
    n = max(len(x.dep) for x in xs if isinstance(x, TS))
    dep = [tm.FALSE] * n
    for x in xs:
        if isinstance(x, TS):
            dep = [tm.or_(a, b) for a, b in zip(dep, x.dep)]
    return TS(dep, tm.FALSE)


def _numarr(a):
    """bools -> numbers; taint elements are kept as they are (their zero-ness must survive)."""
    r = np.frompyfunc(lambda s: s if isinstance(s, TS) else s.num(), 1, 1)(a)
    return r if isinstance(r, np.ndarray) else _obj(r)


def _ew(f, *arrays):
    def g(*xs):
        if any(isinstance(x, TS) for x in xs):
            return _taint_join(xs)
        return f(*xs)

    uf = np.frompyfunc(g, len(arrays), 1)
    r = uf(*arrays)
    if not isinstance(r, np.ndarray):
        r = _obj(r)
    return r


def _ints(x):
    """concrete integer ndarray from an index-like (forks on nothing: must be constant)."""
    if isinstance(x, torch.Tensor):
        return x.detach().numpy()
    if isinstance(x, Sym):
        a = x.a
        out = np.empty(a.shape, dtype=np.int64)
        for idx in np.ndindex(a.shape):
            out[idx] = concretize_int(a[idx])
        return out
    return np.asarray(x)


INT_FORK_LIMIT = 64


def concretize_int(s, lo=None, hi=None):
    """Python int of an Int scalar; a symbolic one forks over its feasible values."""
    s = S.of(s)
    t = s.t
    if t.sort == "B":
        return int(bool(s))
    if t.op == "const":
        v = t.args[0]
        if v.denominator != 1:
            raise NotModelled("non-integer index")
        return int(v)
    if t.op == "to_real":
        t = t.args[0]
    if t.sort != "I":
        raise NotModelled("real-valued index %s" % tm.pretty(t))
    lo = 0 if lo is None else lo
    hi = INT_FORK_LIMIT if hi is None else hi
    if explore.decide(tm.lt(t, tm.const(Fraction(lo), "I"))):
        k = lo - 1
        while k > lo - INT_FORK_LIMIT:
            if explore.decide(tm.eq(t, tm.const(Fraction(k), "I"))):
                return k
            k -= 1
        raise NotModelled("integer fork range exceeded")
    for k in range(lo, hi):
        if explore.decide(tm.eq(t, tm.const(Fraction(k), "I"))):
            return k
    raise NotModelled("integer fork range exceeded")


def _bools(a):
    out = np.empty(a.shape, dtype=bool)
    for idx in np.ndindex(a.shape):
        out[idx] = bool(a[idx])
    return out


def _key(k):
    """torch-style index -> numpy index (symbolic boolean masks fork)."""
    if isinstance(k, tuple):
        return tuple(_key1(x) for x in k)
    return _key1(k)


def _key1(k):
    if isinstance(k, Sym):
        a = k.a
        if a.size and a.reshape(-1)[0].sort == "B":
            return _bools(a)
        return _ints(k)
    if isinstance(k, torch.Tensor):
        return k.detach().numpy()
    if isinstance(k, S):
        return concretize_int(k)
    if isinstance(k, list):
        return [_key1(x) for x in k]
    return k


def _dtype_of(a):
    if a.size == 0:
        return torch.float32
    s = a.reshape(-1)[0].sort
    return {"B": torch.bool, "I": torch.int64, "R": torch.float32}[s]


def _norm_dim(dim, nd):
    if dim is None:
        return None
    if isinstance(dim, (list, tuple, torch.Size)):
        return tuple(int(d) % nd for d in dim) if nd else tuple()
    return int(dim) % nd if nd else 0


HANDLERS = {}


def handles(*names):
    def deco(f):
        for n in names:
            HANDLERS[n] = f
        return f

    return deco


_NP_BIN = {
    "add": operator.add, "subtract": operator.sub, "multiply": operator.mul, "true_divide": operator.truediv, "divide": operator.truediv,
    "less": operator.lt, "less_equal": operator.le, "greater": operator.gt, "greater_equal": operator.ge,
    "power": operator.pow, "minimum": None, "maximum": None,
}
_NP_UN = {"log": "log", "exp": "exp", "sqrt": "sqrt", "negative": "__neg__", "absolute": "__abs__", "tanh": "tanh", "log1p": "log1p", "sign": "sign"}


class Sym:
    __array_priority__ = 10000

    def __array_ufunc__(self, ufunc, method, *inputs, **kwargs):
        """numpy scalars / functions applied to a symbolic tensor (np.float64(2) * sym, np.log(sym))."""
        name = ufunc.__name__
        if method != "__call__" or kwargs.get("out") is not None:
            raise NotModelled("numpy ufunc %s.%s on a symbolic tensor" % (name, method))
        if name in _NP_UN and len(inputs) == 1:
            return getattr(lift(inputs[0]), _NP_UN[name])()
        if name in _NP_BIN and len(inputs) == 2:
            a, b = inputs
            if name == "minimum":
                return minimum(a, b)
            if name == "maximum":
                return maximum(a, b)
            if name == "power":
                return lift(a) ** (b if not isinstance(b, Sym) else b)
            return _NP_BIN[name](lift(a), lift(b))
        raise NotModelled("numpy ufunc %s on a symbolic tensor" % name)

    is_meta = False
    is_sparse = False
    is_quantized = False
    is_leaf = True
    is_cuda = False
    grad = None
    grad_fn = None
    layout = torch.strided
    _is_param = False

    def __init__(self, a, requires_grad=False):
        if not (isinstance(a, np.ndarray) and a.dtype == object):
            a = arr(a)
        if not torch.is_grad_enabled() and a.size and any(getattr(e, "d", None) for e in a.reshape(-1)):
            a = _ew(lambda s: s.nodual(), a)  # results computed under torch.no_grad() carry no derivative
        self.a = a
        self.requires_grad = requires_grad

    # ---- dispatch --------------------------------------------------------------------------------
    @classmethod
    def __torch_function__(cls, func, types, args=(), kwargs=None):
        kwargs = kwargs or {}
        name = getattr(func, "__name__", None) or str(func)
        h = HANDLERS.get(name)
        if h is not None:
            return h(*args, **kwargs)
        if name in ("__get__",):  # property access such as Tensor.shape.__get__
            owner = getattr(func, "__self__", None)
            pname = getattr(owner, "__name__", None)
            if pname and hasattr(Sym, pname):
                return getattr(lift(args[0]), pname)
        if name.endswith("_") and not name.endswith("__") or name in ("__setitem__", "__iadd__", "__isub__", "__imul__", "__itruediv__"):
            if not isinstance(args[0], Sym):
                raise NotModelled("in-place %s of symbols into a real tensor" % name)
        if hasattr(Sym, name):
            return getattr(lift(args[0]), name)(*args[1:], **kwargs)
        raise NotModelled("torch function %s" % name)

    # ---- attributes ------------------------------------------------------------------------------
    @property
    def shape(self):
        return torch.Size(self.a.shape)

    @property
    def dtype(self):
        return _dtype_of(self.a)

    @property
    def device(self):
        return torch.device("cpu")

    @property
    def ndim(self):
        return self.a.ndim

    @property
    def data(self):
        return self

    @data.setter
    def data(self, value):
        explore.log_write(("data=", id(_root(self.a))))
        va = arr(value).copy() if not isinstance(value, Sym) else value.a
        self.a = _ew(lambda s: s.nodual(), va)  # assignment through .data is invisible to autograd

    @property
    def T(self):
        return Sym(self.a.T)

    @property
    def mT(self):
        return Sym(np.swapaxes(self.a, -1, -2))

    def size(self, dim=None):
        return self.shape if dim is None else self.a.shape[dim]

    def dim(self):
        return self.a.ndim

    ndimension = dim

    def numel(self):
        return int(self.a.size)

    nelement = numel

    def __len__(self):
        if self.a.ndim == 0:
            raise TypeError("len() of a 0-d tensor")
        return self.a.shape[0]

    def __iter__(self):
        if self.a.ndim == 0:
            raise TypeError("iteration over a 0-d tensor")
        for i in range(self.a.shape[0]):
            yield Sym(self.a[i] if self.a.ndim > 1 else _obj(self.a[i]))

    def __repr__(self):
        return "Sym(shape=%s)" % (tuple(self.a.shape),)

    def is_floating_point(self):
        return self.dtype == torch.float32

    def is_complex(self):
        return False

    def is_contiguous(self, *a, **k):
        return bool(self.a.flags["C_CONTIGUOUS"])

    def get_device(self):
        return -1

    def element_size(self):
        return 4

    def __bool__(self):
        if self.a.size != 1:
            raise RuntimeError("Boolean value of Tensor with more than one value is ambiguous")
        return bool(self.a.reshape(-1)[0])

    def item(self):
        if self.a.size != 1:
            raise RuntimeError("item() on a tensor with more than one element")
        s = self.a.reshape(-1)[0]
        if s.is_const():
            v = s.concrete()
            if isinstance(v, Fraction):
                return float(v)
            return v
        return s

    def __int__(self):
        return concretize_int(self.a.reshape(-1)[0]) if self.a.size == 1 else NotImplemented

    __index__ = __int__

    def __float__(self):
        return float(self.a.reshape(-1)[0])

    def tolist(self):
        return self.a.tolist()

    def numpy(self):
        raise NotModelled("numpy() of a symbolic tensor")

    def cpu(self):
        return self

    def cuda(self, *a, **k):
        return self

    def to(self, *args, **kwargs):
        dt = kwargs.get("dtype")
        for x in args:
            if isinstance(x, torch.dtype):
                dt = x
        return self if dt is None else self.type(dt)

    def type(self, dtype=None, **kw):
        if dtype is None:
            return "torch.FloatTensor"
        if dtype in (torch.Tensor, torch.FloatTensor, torch.float32, torch.float64, torch.float, torch.double, torch.DoubleTensor, torch.float16):
            return self.float()
        if dtype in (torch.long, torch.int64, torch.int32, torch.LongTensor, torch.uint8, torch.ByteTensor, torch.int):
            return self.long()
        if dtype in (torch.bool, torch.BoolTensor):
            return self.bool()
        raise NotModelled("type(%s)" % dtype)

    def float(self):
        return Sym(_ew(lambda s: s.real(), self.a))

    double = float
    half = float

    def long(self):
        def f(s):
            s = s.num()
            if s.sort == "I":
                return s
            if s.t.op == "to_real":
                return S(s.t.args[0])
            if s.t.op == "const":
                v = s.t.args[0]
                return S(tm.const(Fraction(math.trunc(v)), "I"))
            # truncation toward zero of a symbolic real: fork on the integer part
            if explore.decide(tm.lt0(s.t)):
                k = -fork_floor(-s)
            else:
                k = fork_floor(s)
            return S(tm.const(Fraction(k), "I"))

        return Sym(_ew(f, self.a))

    int = long
    byte = long
    short = long

    def bool(self):
        return Sym(_ew(lambda s: s if s.sort == "B" else S(s._b()), self.a))

    def requires_grad_(self, requires_grad=True):
        self.requires_grad = requires_grad
        return self

    def detach(self):
        return Sym(_ew(lambda s: s.nodual(), self.a))

    def detach_(self):
        self.a[...] = _ew(lambda s: s.nodual(), self.a)
        return self

    def clone(self, *a, **k):
        return Sym(self.a.copy())

    def contiguous(self, *a, **k):
        return Sym(np.ascontiguousarray(self.a)) if not self.a.flags["C_CONTIGUOUS"] else self

    def backward(self, *a, **k):
        raise NotModelled("backward()")

    def register_hook(self, *a, **k):
        raise NotModelled("register_hook")

    # ---- indexing --------------------------------------------------------------------------------
    def __getitem__(self, k):
        r = self.a[_key(k)]
        if not isinstance(r, np.ndarray):
            r = _obj(r)
        return Sym(r)

    def __setitem__(self, k, v):
        explore.log_write(("setitem", id(_root(self.a))))
        kk = _key(k)
        va = arr(v)
        tgt = self.a[kk]
        if isinstance(tgt, np.ndarray):
            if va.ndim > tgt.ndim:
                # torch allows assigning [n] <- [n] shaped sources with extra leading 1 dims
                va = va.reshape(va.shape[va.ndim - tgt.ndim:]) if int(np.prod(va.shape[: va.ndim - tgt.ndim])) == 1 else va
            self.a[kk] = np.broadcast_to(va, tgt.shape) if va.shape != tgt.shape else va
        else:
            if va.size != 1:
                raise RuntimeError("shape mismatch in setitem")
            self.a[kk] = va.reshape(-1)[0]

    # ---- shape ops -------------------------------------------------------------------------------
    def _shape_args(self, shape):
        if len(shape) == 1 and isinstance(shape[0], (tuple, list, torch.Size)):
            shape = tuple(shape[0])
        return tuple(int(s) for s in shape)

    def reshape(self, *shape):
        return Sym(self.a.reshape(self._shape_args(shape)))

    def view(self, *shape):
        shape = self._shape_args(shape)
        r = self.a.reshape(shape)
        if r.size and not np.shares_memory(r, self.a) and self.a.size > 1:
            raise RuntimeError("view size is not compatible with input tensor's size and stride")
        return Sym(r)

    def view_as(self, other):
        return self.view(*other.shape)

    def reshape_as(self, other):
        return self.reshape(*other.shape)

    def flatten(self, start_dim=0, end_dim=-1):
        nd = self.a.ndim
        s, e = start_dim % nd, end_dim % nd
        shp = self.a.shape[:s] + (-1,) + self.a.shape[e + 1:]
        return Sym(self.a.reshape(shp))

    def permute(self, *dims):
        return Sym(self.a.transpose(self._shape_args(dims)))

    def transpose(self, d0, d1):
        return Sym(np.swapaxes(self.a, d0, d1))

    def t(self):
        if self.a.ndim > 2:
            raise RuntimeError("t() expects a tensor with <= 2 dimensions")
        return Sym(self.a.T)

    def unsqueeze(self, dim):
        nd = self.a.ndim + 1
        return Sym(np.expand_dims(self.a, int(dim) % nd))

    def squeeze(self, dim=None):
        if dim is None:
            return Sym(np.squeeze(self.a))
        d = int(dim) % max(self.a.ndim, 1)
        return Sym(np.squeeze(self.a, d)) if self.a.ndim and self.a.shape[d] == 1 else self

    def expand(self, *shape):
        shape = list(self._shape_args(shape))
        nd = len(shape)
        cur = (1,) * (nd - self.a.ndim) + self.a.shape
        for i, s in enumerate(shape):
            if s == -1:
                shape[i] = cur[i]
        if int(np.prod(shape)) == self.a.size:
            # nothing is repeated: torch returns an ordinary (writable) view of the same storage
            return Sym(self.a.reshape(tuple(shape)))
        return Sym(np.broadcast_to(self.a, tuple(shape)))

    def expand_as(self, other):
        return self.expand(*other.shape)

    def repeat(self, *reps):
        reps = self._shape_args(reps)
        return Sym(np.tile(self.a, reps))

    def new_zeros(self, *shape, **kw):
        return Sym(_full(self._shape_args(shape), _ZERO))

    def new_ones(self, *shape, **kw):
        return Sym(_full(self._shape_args(shape), _ONE))

    def new_full(self, shape, value, **kw):
        return Sym(_full(tuple(shape), S.of(value)))

    def new_empty(self, *shape, **kw):
        return Sym(_uninit(self._shape_args(shape)))

    def new_tensor(self, data, **kw):
        return Sym(arr(data))

    def masked_select(self, mask):
        m = _bools(arr(mask))
        return Sym(self.a[np.broadcast_to(m, self.a.shape)])

    def masked_fill(self, mask, value):
        return where(mask, value, self)

    def gather(self, dim, index):
        return gather(self, dim, index)

    def index_select(self, dim, index):
        return index_select(self, dim, index)

    def chunk(self, chunks, dim=0):
        return chunk(self, chunks, dim)

    def unbind(self, dim=0):
        return unbind(self, dim)

    def addcmul(self, t1, t2, value=1):
        return self + (lift(t1) * lift(t2)) * value

    def addcmul_(self, t1, t2, value=1):
        self[...] = self + (lift(t1) * lift(t2)) * value  # written through the view, like torch's in-place op
        return self

    def addcdiv(self, t1, t2, value=1):
        return self + (lift(t1) / lift(t2)) * value

    # ---- arithmetic ------------------------------------------------------------------------------
    def _bin(self, o, f):
        if isinstance(o, (Sym, torch.Tensor, S, np.ndarray)) or sc._is_num(o):
            return Sym(_fix(f(self.a, arr(o))))
        return NotImplemented

    def __add__(self, o):
        return self._bin(o, operator.add)

    __radd__ = __add__

    def __sub__(self, o):
        return self._bin(o, operator.sub)

    def __rsub__(self, o):
        return self._bin(o, lambda a, b: b - a)

    def __mul__(self, o):
        return self._bin(o, operator.mul)

    __rmul__ = __mul__

    def __truediv__(self, o):
        return self._bin(o, operator.truediv)

    def __rtruediv__(self, o):
        return self._bin(o, lambda a, b: b / a)

    def __floordiv__(self, o):
        return self._bin(o, operator.floordiv)

    def __mod__(self, o):
        return self._bin(o, operator.mod)

    def __pow__(self, o):
        if isinstance(o, (Sym, torch.Tensor)):
            return self._bin(o, operator.pow)
        return Sym(_ew(lambda s: s ** o, self.a))

    def __rpow__(self, o):
        raise NotModelled("number ** tensor")

    def __neg__(self):
        return Sym(_ew(operator.neg, self.a))

    def __pos__(self):
        return self

    def __abs__(self):
        return Sym(_ew(sc.s_abs, self.a))

    def __matmul__(self, o):
        return matmul(self, o)

    def __rmatmul__(self, o):
        return matmul(o, self)

    def _inplace(self, o, f):
        explore.log_write(("inplace", id(_root(self.a))))
        r = f(self.a, arr(o))
        if r.shape != self.a.shape:
            raise RuntimeError("output with shape %s doesn't match the broadcast shape %s" % (self.a.shape, r.shape))
        self.a[...] = _fix(r)
        return self

    def __iadd__(self, o):
        return self._inplace(o, operator.add)

    def __isub__(self, o):
        return self._inplace(o, operator.sub)

    def __imul__(self, o):
        return self._inplace(o, operator.mul)

    def __itruediv__(self, o):
        return self._inplace(o, operator.truediv)

    def add_(self, o, alpha=1):
        return self._inplace(o, (lambda a, b: a + b) if alpha == 1 else (lambda a, b: a + b * alpha))

    def sub_(self, o, alpha=1):
        return self._inplace(o, lambda a, b: a - b * alpha if alpha != 1 else a - b)

    def mul_(self, o):
        return self._inplace(o, operator.mul)

    def div_(self, o):
        return self._inplace(o, operator.truediv)

    def copy_(self, o, *a, **k):
        explore.log_write(("copy_", id(_root(self.a))))
        self.a[...] = np.broadcast_to(arr(o), self.a.shape)
        return self

    def zero_(self):
        explore.log_write(("zero_", id(_root(self.a))))
        self.a[...] = _full(self.a.shape, _ZERO)
        return self

    def fill_(self, v):
        explore.log_write(("fill_", id(_root(self.a))))
        self.a[...] = _full(self.a.shape, S.of(v))
        return self

    def clamp_(self, min=None, max=None):
        explore.log_write(("clamp_", id(_root(self.a))))
        self.a[...] = clamp(self, min, max).a
        return self

    def uniform_(self, *a, **k):
        raise NotModelled("uniform_ on symbolic tensor")

    def _inplace_unary(self, name):
        """x.exp_() etc.: the out-of-place handler's result written through the view (logged as a mutation)"""
        explore.log_write((name + "_", id(_root(self.a))))
        self.a[...] = HANDLERS[name](self).a
        return self

    def exp_(self):
        return self._inplace_unary("exp")

    def log_(self):
        return self._inplace_unary("log")

    def neg_(self):
        return self._inplace_unary("neg")

    def abs_(self):
        return self._inplace_unary("abs")

    def sqrt_(self):
        return self._inplace_unary("sqrt")

    def sigmoid_(self):
        return self._inplace_unary("sigmoid")

    def tanh_(self):
        return self._inplace_unary("tanh")

    add = __add__
    sub = __sub__
    mul = __mul__
    div = __truediv__
    true_divide = __truediv__
    neg = __neg__
    abs = __abs__
    matmul = __matmul__
    mm = __matmul__

    def pow(self, e):
        return self.__pow__(e)

    def square(self):
        return self.__pow__(2)

    def reciprocal(self):
        return Sym(_ew(lambda s: 1 / s, self.a))

    # ---- comparisons -----------------------------------------------------------------------------
    def _cmp(self, o, f):
        return Sym(_ew(f, *np.broadcast_arrays(self.a, arr(o))))

    def __lt__(self, o):
        return self._cmp(o, operator.lt)

    def __le__(self, o):
        return self._cmp(o, operator.le)

    def __gt__(self, o):
        return self._cmp(o, operator.gt)

    def __ge__(self, o):
        return self._cmp(o, operator.ge)

    def __eq__(self, o):
        if o is None or isinstance(o, str):
            return False
        return self._cmp(o, lambda a, b: a.eq(b))

    def __ne__(self, o):
        if o is None or isinstance(o, str):
            return True
        return self._cmp(o, lambda a, b: a.ne(b))

    __hash__ = object.__hash__

    lt, le, gt, ge, eq, ne = __lt__, __le__, __gt__, __ge__, __eq__, __ne__

    def __and__(self, o):
        return self._cmp(o, operator.and_)

    __rand__ = __and__

    def __or__(self, o):
        return self._cmp(o, operator.or_)

    __ror__ = __or__

    def __invert__(self):
        return Sym(_ew(operator.invert, self.a))

    logical_not = __invert__

    def logical_and(self, o):
        return self.__and__(o)

    def logical_or(self, o):
        return self.__or__(o)

    # ---- reductions / unary ----------------------------------------------------------------------
    def sum(self, dim=None, keepdim=False, dtype=None):
        return sum_(self, dim, keepdim)

    def prod(self, dim=None, keepdim=False):
        return prod(self, dim, keepdim)

    def mean(self, dim=None, keepdim=False):
        return mean(self, dim, keepdim)

    def var(self, dim=None, unbiased=True, keepdim=False, correction=None):
        return var(self, dim, unbiased=unbiased, keepdim=keepdim, correction=correction)

    def std(self, dim=None, unbiased=True, keepdim=False, correction=None):
        return std(self, dim, unbiased=unbiased, keepdim=keepdim, correction=correction)

    def all(self, dim=None, keepdim=False):
        return all_(self, dim, keepdim)

    def any(self, dim=None, keepdim=False):
        return any_(self, dim, keepdim)

    def min(self, dim=None, keepdim=False):
        return min_(self, dim, keepdim)

    def max(self, dim=None, keepdim=False):
        return max_(self, dim, keepdim)

    def cumsum(self, dim):
        return cumsum(self, dim)

    def exp(self):
        return Sym(_ew(sc.s_exp, self.a))

    def log(self):
        return Sym(_ew(sc.s_log, self.a))

    def log1p(self):
        return Sym(_ew(sc.s_log1p, self.a))

    def sqrt(self):
        return Sym(_ew(sc.s_sqrt, self.a))

    def sigmoid(self):
        return sigmoid(self)

    def tanh(self):
        return Sym(_ew(sc.s_tanh, self.a))

    def sign(self):
        return Sym(_ew(sc.s_sign, self.a))

    def floor(self):
        return floor(self)

    def clamp(self, min=None, max=None):
        return clamp(self, min, max)

    def diag(self, diagonal=0):
        return diag(self, diagonal)

    def inverse(self):
        return inverse(self)

    def argsort(self, dim=-1, descending=False):
        return argsort(self, dim, descending)

    def isinf(self):
        return Sym(_full(self.a.shape, S(tm.FALSE)))

    isnan = isinf

    def isfinite(self):
        return Sym(_full(self.a.shape, S(tm.TRUE)))


def _root(a):
    while isinstance(a, np.ndarray) and a.base is not None:
        a = a.base
    return a


def _full(shape, s):
    out = np.empty(tuple(shape), dtype=object)
    out.fill(s)
    return out


_UNINIT = [0]


def _uninit(shape):
    out = np.empty(tuple(shape), dtype=object)
    for idx in np.ndindex(out.shape):
        nm = sc.reg().fresh_name("uninit!")
        out[idx] = S(tm.var(nm))
    return out


def fork_floor(s):
    """integer part (floor) of a symbolic real scalar, by forking."""
    t = s.real().t
    if t.op == "const":
        return math.floor(t.args[0])
    if explore.decide(tm.lt0(t)):
        for k in range(-1, -INT_FORK_LIMIT, -1):
            if explore.decide(tm.ge(t, tm.const(Fraction(k)))):
                return k
        raise NotModelled("floor fork range exceeded")
    for k in range(0, INT_FORK_LIMIT):
        if explore.decide(tm.lt(t, tm.const(Fraction(k + 1)))):
            return k
    raise NotModelled("floor fork range exceeded")


# ================================================================================================
# function table

@handles("add")
def add(a, b, alpha=1, out=None):
    return lift(a) + (lift(b) * alpha if alpha != 1 else b)


@handles("sub", "subtract")
def sub(a, b, alpha=1):
    return lift(a) - (lift(b) * alpha if alpha != 1 else b)


@handles("mul", "multiply")
def mul(a, b):
    return lift(a) * b


@handles("div", "true_divide", "divide")
def div(a, b, rounding_mode=None):
    if rounding_mode is not None:
        raise NotModelled("div rounding_mode")
    return lift(a) / b


@handles("__add__", "__radd__")
def _hadd(a, b):
    return lift(a) + b


@handles("__sub__")
def _hsub(a, b):
    return lift(a) - b


@handles("__rsub__", "rsub")
def _hrsub(a, b):
    return lift(b) - a


@handles("__mul__", "__rmul__")
def _hmul(a, b):
    return lift(a) * b


@handles("__truediv__")
def _hdiv(a, b):
    return lift(a) / b


@handles("__rtruediv__", "__rdiv__")
def _hrdiv(a, b):
    return lift(b) / a


@handles("__matmul__")
def _hmatmul(a, b):
    return matmul(a, b)


@handles("__rmatmul__")
def _hrmatmul(a, b):
    return matmul(b, a)


@handles("__pow__", "pow")
def pow_(a, e):
    return lift(a) ** e


@handles("__lt__", "lt")
def _hlt(a, b):
    return lift(a) < b


@handles("__le__", "le")
def _hle(a, b):
    return lift(a) <= b


@handles("__gt__", "gt")
def _hgt(a, b):
    return lift(a) > b


@handles("__ge__", "ge")
def _hge(a, b):
    return lift(a) >= b


@handles("__eq__", "eq")
def _heq(a, b):
    return lift(a) == b


@handles("__ne__", "ne")
def _hne(a, b):
    return lift(a) != b


@handles("__and__", "__rand__", "logical_and", "bitwise_and")
def _hand(a, b):
    return lift(a) & b


@handles("__or__", "__ror__", "logical_or", "bitwise_or")
def _hor(a, b):
    return lift(a) | b


@handles("neg", "negative")
def neg(a):
    return -lift(a)


@handles("abs")
def abs_(a):
    return abs(lift(a))


@handles("exp")
def exp(a):
    return lift(a).exp()


@handles("log")
def log(a):
    return lift(a).log()


@handles("log1p")
def log1p(a):
    return lift(a).log1p()


@handles("sqrt")
def sqrt(a):
    return lift(a).sqrt()


@handles("tanh")
def tanh(a):
    return lift(a).tanh()


@handles("sign")
def sign(a):
    return lift(a).sign()


@handles("atan")
def atan(a):
    return Sym(_ew(sc.s_atan, lift(a).a))


@handles("tan")
def tan(a):
    return Sym(_ew(sc.s_tan, lift(a).a))


@handles("cos")
def cos(a):
    return Sym(_ew(sc.s_opaque("cos"), lift(a).a))


@handles("sin")
def sin(a):
    return Sym(_ew(sc.s_opaque("sin"), lift(a).a))


@handles("atan2")
def atan2(a, b):
    return Sym(_ew(sc.s_opaque("atan2"), *np.broadcast_arrays(arr(a), arr(b))))


@handles("erf")
def erf(a):
    return Sym(_ew(sc.s_opaque("erf"), lift(a).a))


@handles("reciprocal")
def reciprocal(a):
    return lift(a).reciprocal()


@handles("floor")
def floor(a):
    def f(s):
        s = s.num()
        if s.sort == "I":
            return s.real()
        return S(tm.const(Fraction(fork_floor(s))))

    return Sym(_ew(f, lift(a).a))


@handles("isinf", "isnan")
def isinf(a):
    return lift(a).isinf()


@handles("isfinite")
def isfinite(a):
    return lift(a).isfinite()


def _free_core(t):
    """the free atom if t is an injective affine image c*atom + d of a free parameter / stub output."""
    R = sc.reg()
    c0, items = tm.linear_form(t)
    if len(items) != 1:
        return None
    c, a = items[0]
    if a.op == "var" and a in getattr(R, "free", ()):
        return a
    if a.op == "app" and R.is_uf(a.args[0]):
        return a
    return None


def _dual_keys(scalars):
    ks = set()
    for s in scalars:
        if s.d:
            ks |= set(s.d)
    return ks


@handles("sigmoid")
def sigmoid(a):
    R = sc.reg()

    def f(s):
        s = s.real()
        if CFG.simplex_shortcut and _free_core(s.t) is not None and not s.d:
            key = ("sigmoid", s.t)
            v = R.memo.get(key)
            if v is None:
                v = R.declare("sg!%d" % len(R.memo), lo=0, hi=1)
                R.memo[key] = v
                R.replay_hints[v] = ("sigmoid", s.t)
            return S(v)
        return sc.s_sigmoid(s)

    return Sym(_ew(f, lift(a).a))


@handles("softplus")
def softplus(a, beta=1, threshold=20):
    R = sc.reg()
    beta_s = S.of(beta).real()

    def f(s):
        s = s.real()
        if CFG.simplex_shortcut and _free_core(s.t) is not None:
            u = (s * beta_s).t
            key = ("softplus", u)
            v = R.memo.get(key)
            if v is None:
                v = R.declare("sp!%d" % len(R.memo), lo=0)
                R.memo[key] = v
                R.replay_hints[v] = ("softplus", u)
            d = None
            if s.d:
                gk = ("softplus'", u)
                g = R.memo.get(gk)
                if g is None:
                    g = R.declare("spd!%d" % len(R.memo), lo=0, hi=1)
                    R.memo[gk] = g
                d = sc._dual_lin([(g, s.d)])
            return S(v, d) / beta_s if beta != 1 else S(v, d)
        return sc.s_softplus(s, beta=beta)

    return Sym(_ew(f, lift(a).a))


@handles("softmax")
def softmax(a, dim=-1, _stacklevel=3, dtype=None):
    x = lift(a).float().a
    dim = dim % x.ndim
    xm = np.moveaxis(x, dim, -1)
    out = np.empty(xm.shape, dtype=object)
    R = sc.reg()
    for idx in np.ndindex(xm.shape[:-1]):
        row = list(xm[idx])
        cores = [_free_core(s.t) for s in row]
        n = len(row)
        if CFG.simplex_shortcut and all(c is not None for c in cores) and len(set(cores)) == n:
            key = ("softmax", tuple(s.t for s in row))
            vs = R.memo.get(key)
            if vs is None:
                base = len(R.memo)
                vs = [R.declare("sm!%d_%d" % (base, j), lo=0, hi=1, hi_strict=(n > 1), lo_strict=True) for j in range(n)]
                if n == 1:
                    vs = [tm.ONE]
                else:
                    tot = tm.eq(tm.add(*vs), tm.ONE)
                    for v in vs:
                        R.add_axiom(v, tot)
                        R.replay_hints[v] = ("softmax", key[1], vs)
                R.memo[key] = vs
            ks = _dual_keys(row)
            for j in range(n):
                d = None
                if ks:
                    # d s_j = s_j (du_j - sum_k s_k du_k)
                    d = {}
                    for i in ks:
                        du_j = (row[j].d or {}).get(i, tm.ZERO)
                        mean = tm.add(*[tm.mul(vs[k], (row[k].d or {}).get(i, tm.ZERO)) for k in range(n)])
                        v = tm.mul(vs[j], tm.sub(du_j, mean))
                        if not (v.op == "const" and v.args[0] == 0):
                            d[i] = v
                    d = d or None
                out[idx + (j,)] = S(vs[j], d)
        else:
            es = [sc.s_exp(s) for s in row]
            tot = es[0]
            for e in es[1:]:
                tot = tot + e
            for j in range(n):
                out[idx + (j,)] = es[j] / tot
    return Sym(np.moveaxis(out, -1, dim))


@handles("log_softmax")
def log_softmax(a, dim=-1, _stacklevel=3, dtype=None):
    x = lift(a)
    return x - logsumexp(x, dim, keepdim=True)


@handles("logsumexp")
def logsumexp(a, dim, keepdim=False):
    x = lift(a).float()
    return sum_(x.exp(), dim, keepdim).log()


@handles("relu")
def relu(a, inplace=False):
    return Sym(_ew(lambda s: sc.s_max(s, _ZERO), lift(a).a))


@handles("leaky_relu")
def leaky_relu(a, negative_slope=0.01, inplace=False):
    k = S.of(negative_slope).real()

    def f(s):
        s = s.real()
        return sc.s_where(S(tm.lt0(s.t)), s * k, s)

    return Sym(_ew(f, lift(a).a))


@handles("elu")
def elu(a, alpha=1.0, inplace=False):
    def f(s):
        s = s.real()
        return sc.s_where(S(tm.lt0(tm.neg(s.t))), s, (sc.s_exp(s) - 1) * alpha)

    return Sym(_ew(f, lift(a).a))


@handles("glu")
def glu(a, dim=-1):
    x = lift(a)
    n = x.a.shape[dim]
    if n % 2:
        raise RuntimeError("Halving dimension must be even")
    h1, h2 = np.split(x.a, 2, axis=dim)
    return Sym(h1) * sigmoid(Sym(h2))


@handles("dropout")
def dropout(a, p=0.5, training=True, inplace=False):
    if not training or p == 0:
        return lift(a)
    R = sc.reg()
    keep = Fraction(1) / (1 - tm.read_float(p))

    def f(s):
        nm = R.fresh_name("drop!")
        m = R.declare(nm, axioms=())
        mv = tm.var(nm)
        R.add_axiom(mv, tm.or_(tm.eq(mv, tm.ZERO), tm.eq(mv, tm.const(keep))))
        return s * S(mv)

    return Sym(_ew(f, lift(a).a))


@handles("batch_norm")
def batch_norm(x, running_mean, running_var, weight=None, bias=None, training=False, momentum=0.1, eps=1e-5):
    X = lift(x)
    if X.a.size and isinstance(X.a.reshape(-1)[0], TS):
        return Sym(_ew(lambda s: s, X.a))  # per-feature affine map / per-feature statistics: taints stay per unit
    if X.a.ndim != 2:
        raise NotModelled("batch_norm on non-2D input")
    if training:
        raise NotModelled("batch_norm in training mode on real-valued symbols")
    out = (X - lift(running_mean)) / (lift(running_var) + eps).sqrt()
    if weight is not None:
        out = out * lift(weight)
    if bias is not None:
        out = out + lift(bias)
    return out


@handles("linear")
def linear(x, w, b=None):
    out = matmul(x, lift(w).t() if lift(w).a.ndim == 2 else w)
    if b is not None:
        out = out + b
    return out


@handles("matmul", "mm", "bmm")
def matmul(a, b):
    A, B = arr(a), arr(b)
    if A.ndim == 0 or B.ndim == 0:
        raise RuntimeError("matmul of 0-d tensor")
    A = _numarr(A)
    B = _numarr(B)
    return Sym(_fix(np.matmul(A, B)))


@handles("ger", "outer")
def ger(a, b):
    A, B = arr(a), arr(b)
    return Sym(_fix(np.multiply.outer(A, B)))


@handles("dot")
def dot(a, b):
    return Sym(_fix(np.dot(arr(a), arr(b))))


@handles("sum")
def sum_(a, dim=None, keepdim=False, dtype=None):
    x = lift(a)
    A = _numarr(x.a)
    if isinstance(dim, (list, tuple)) and len(dim) == 0:
        dim = None  # torch: an empty dim list reduces over all dimensions
    ax = _norm_dim(dim, A.ndim)
    if A.ndim == 0:
        return Sym(A)
    r = np.sum(A, axis=ax, keepdims=keepdim)
    return Sym(_fix(r))


@handles("prod")
def prod(a, dim=None, keepdim=False):
    A = _numarr(lift(a).a)
    return Sym(_fix(np.prod(A, axis=_norm_dim(dim, A.ndim), keepdims=keepdim)))


@handles("mean")
def mean(a, dim=None, keepdim=False):
    x = lift(a).float()
    ax = _norm_dim(dim, x.a.ndim)
    n = x.a.size if ax is None else int(np.prod([x.a.shape[d] for d in (ax if isinstance(ax, tuple) else (ax,))]))
    return sum_(x, dim, keepdim) / n


@handles("var")
def var(a, dim=None, unbiased=True, keepdim=False, correction=None):
    x = lift(a).float()
    ax = _norm_dim(dim, x.a.ndim)
    n = x.a.size if ax is None else int(np.prod([x.a.shape[d] for d in (ax if isinstance(ax, tuple) else (ax,))]))
    corr = (1 if unbiased else 0) if correction is None else correction
    m = mean(x, dim, keepdim=True)
    dev = x - m
    ss = sum_(dev * dev, dim, keepdim)
    if n - corr <= 0:
        raise NotModelled("variance with %d samples (NaN in torch)" % n)
    return ss / (n - corr)


@handles("std")
def std(a, dim=None, unbiased=True, keepdim=False, correction=None):
    return var(a, dim, unbiased=unbiased, keepdim=keepdim, correction=correction).sqrt()


@handles("rsqrt")
def rsqrt(a):
    return 1.0 / lift(a).sqrt()


@handles("var_mean")
def var_mean(a, dim=None, unbiased=True, keepdim=False, correction=None):
    return var(a, dim, unbiased=unbiased, keepdim=keepdim, correction=correction), mean(a, dim, keepdim=keepdim)


@handles("std_mean")
def std_mean(a, dim=None, unbiased=True, keepdim=False, correction=None):
    return std(a, dim, unbiased=unbiased, keepdim=keepdim, correction=correction), mean(a, dim, keepdim=keepdim)


def _reduce2(f, A, ax, keepdim):
    uf = np.frompyfunc(f, 2, 1)
    if ax is None:
        r = uf.reduce(A.reshape(-1))
        r = _obj(r)
        if keepdim:
            r = r.reshape((1,) * A.ndim)
        return r
    r = uf.reduce(A, axis=ax, keepdims=keepdim)
    return r if isinstance(r, np.ndarray) else _obj(r)


@handles("all")
def all_(a, dim=None, keepdim=False):
    A = lift(a).bool().a
    if A.size == 0:
        return Sym(_obj(S(tm.TRUE)))
    return Sym(_reduce2(lambda x, y: x & y, A, _norm_dim(dim, A.ndim), keepdim))


@handles("any")
def any_(a, dim=None, keepdim=False):
    A = lift(a).bool().a
    if A.size == 0:
        return Sym(_obj(S(tm.FALSE)))
    return Sym(_reduce2(lambda x, y: x | y, A, _norm_dim(dim, A.ndim), keepdim))


@handles("min")
def min_(a, dim=None, keepdim=False, other=None):
    if isinstance(dim, (Sym, torch.Tensor)):
        return Sym(_ew(sc.s_min, *np.broadcast_arrays(arr(a), arr(dim))))
    if other is not None:
        return Sym(_ew(sc.s_min, *np.broadcast_arrays(arr(a), arr(other))))
    A = lift(a).a
    if A.size == 0:
        raise RuntimeError("min(): Expected reduction dim to be specified for input.numel() == 0")
    if dim is None:
        return Sym(_reduce2(sc.s_min, A, None, False))
    raise NotModelled("min with dim (needs indices)")


@handles("max")
def max_(a, dim=None, keepdim=False, other=None):
    if isinstance(dim, (Sym, torch.Tensor)):
        return Sym(_ew(sc.s_max, *np.broadcast_arrays(arr(a), arr(dim))))
    if other is not None:
        return Sym(_ew(sc.s_max, *np.broadcast_arrays(arr(a), arr(other))))
    A = lift(a).a
    if A.size == 0:
        raise RuntimeError("max(): Expected reduction dim to be specified for input.numel() == 0")
    if dim is None:
        return Sym(_reduce2(sc.s_max, A, None, False))
    raise NotModelled("max with dim (needs indices)")


@handles("minimum")
def minimum(a, b):
    return Sym(_ew(sc.s_min, *np.broadcast_arrays(arr(a), arr(b))))


@handles("maximum")
def maximum(a, b):
    return Sym(_ew(sc.s_max, *np.broadcast_arrays(arr(a), arr(b))))


@handles("clamp", "clip")
def clamp(a, min=None, max=None):
    x = lift(a).a
    if min is not None:
        x = _ew(sc.s_max, *np.broadcast_arrays(x, arr(min)))
    if max is not None:
        x = _ew(sc.s_min, *np.broadcast_arrays(x, arr(max)))
    return Sym(x)


@handles("where")
def where(c, a=None, b=None):
    if a is None:
        raise NotModelled("where(cond) without values")
    C, A, B = np.broadcast_arrays(arr(c), arr(a), arr(b))
    return Sym(_ew(sc.s_where, C, A, B))


@handles("cumsum")
def cumsum(a, dim, dtype=None):
    A = _numarr(lift(a).a)
    return Sym(_fix(np.cumsum(A, axis=dim)))


@handles("cat", "concat", "concatenate")
def cat(tensors, dim=0, out=None):
    arrs = [arr(t) for t in tensors]
    arrs = [x for x in arrs if not (x.ndim == 1 and x.size == 0 and len(arrs) > 1)]
    return Sym(np.concatenate(arrs, axis=dim))


@handles("stack")
def stack(tensors, dim=0):
    return Sym(np.stack([arr(t) for t in tensors], axis=dim))


@handles("unbind")
def unbind(a, dim=0):
    A = lift(a).a
    return tuple(Sym(np.take(A, i, axis=dim)) for i in range(A.shape[dim]))


@handles("chunk")
def chunk(a, chunks, dim=0):
    A = lift(a).a
    n = A.shape[dim]
    size = -(-n // chunks)
    outs = []
    i = 0
    while i < n:
        sl = [slice(None)] * A.ndim
        sl[dim] = slice(i, min(i + size, n))
        outs.append(Sym(A[tuple(sl)]))
        i += size
    return tuple(outs)


@handles("split")
def split(a, split_size_or_sections, dim=0):
    A = lift(a).a
    n = A.shape[dim]
    if isinstance(split_size_or_sections, int):
        sizes = [min(split_size_or_sections, n - i) for i in range(0, n, split_size_or_sections)]
    else:
        sizes = list(split_size_or_sections)
    outs, i = [], 0
    for s in sizes:
        sl = [slice(None)] * A.ndim
        sl[dim] = slice(i, i + s)
        outs.append(Sym(A[tuple(sl)]))
        i += s
    return tuple(outs)


@handles("reshape")
def reshape(a, shape):
    return lift(a).reshape(*shape)


@handles("flatten")
def flatten(a, start_dim=0, end_dim=-1):
    return lift(a).flatten(start_dim, end_dim)


@handles("transpose")
def transpose(a, d0, d1):
    return lift(a).transpose(d0, d1)


@handles("permute")
def permute(a, dims):
    return lift(a).permute(*dims)


@handles("t")
def t_(a):
    return lift(a).t()


@handles("squeeze")
def squeeze(a, dim=None):
    return lift(a).squeeze(dim)


@handles("unsqueeze")
def unsqueeze(a, dim):
    return lift(a).unsqueeze(dim)


@handles("numel")
def numel(a):
    return lift(a).numel()


@handles("zeros_like")
def zeros_like(a, **kw):
    return Sym(_full(lift(a).a.shape, _ZERO))


@handles("ones_like")
def ones_like(a, **kw):
    return Sym(_full(lift(a).a.shape, _ONE))


@handles("empty_like")
def empty_like(a, **kw):
    return Sym(_uninit(lift(a).a.shape))


@handles("full_like")
def full_like(a, fill_value, **kw):
    return Sym(_full(lift(a).a.shape, S.of(fill_value)))


@handles("clone")
def clone(a, **kw):
    return lift(a).clone()


@handles("detach")
def detach(a):
    return lift(a).detach()


@handles("gather")
def gather(a, dim, index, sparse_grad=False):
    A = lift(a).a
    I = _ints(index)
    dim = dim % A.ndim
    if I.ndim != A.ndim:
        raise RuntimeError("Index tensor must have the same number of dimensions as input tensor")
    n = A.shape[dim]
    if I.size and (I.min() < 0 or I.max() >= n):
        raise RuntimeError("index %d is out of bounds for dimension %d with size %d" % (int(I.max() if I.max() >= n else I.min()), dim, n))
    for d in range(A.ndim):
        if d != dim and I.shape[d] > A.shape[d]:
            raise RuntimeError("Size does not match at dimension %d" % d)
    sl = tuple(slice(0, I.shape[d]) if d != dim else slice(None) for d in range(A.ndim))
    return Sym(np.take_along_axis(A[sl], I, axis=dim))


@handles("index_select")
def index_select(a, dim, index):
    A = lift(a).a
    I = _ints(index)
    n = A.shape[dim]
    if I.size and (I.min() < 0 or I.max() >= n):
        raise IndexError("index out of range in self")
    return Sym(np.take(A, I, axis=dim))


@handles("masked_select")
def masked_select(a, mask):
    return lift(a).masked_select(mask)


@handles("argsort")
def argsort(a, dim=-1, descending=False, stable=False):
    A = lift(a).a
    vals = np.empty(A.shape, dtype=float)
    for idx in np.ndindex(A.shape):
        s = A[idx]
        if not s.is_const():
            raise NotModelled("argsort of symbolic values")
        vals[idx] = float(s.concrete())
    r = np.argsort(-vals if descending else vals, axis=dim, kind="stable")
    return Sym(_obj(r.astype(np.int64)))


@handles("diag")
def diag(a, diagonal=0):
    A = lift(a).a
    if diagonal != 0:
        raise NotModelled("diag offset")
    if A.ndim == 1:
        n = A.shape[0]
        out = _full((n, n), _ZERO)
        for i in range(n):
            out[i, i] = A[i]
        return Sym(out)
    if A.ndim == 2:
        return Sym(np.array([A[i, i] for i in range(min(A.shape))], dtype=object).reshape(-1) if min(A.shape) else np.empty((0,), dtype=object))
    raise RuntimeError("diag expects 1-D or 2-D")


@handles("pad")
def pad(a, pad, mode="constant", value=None):
    if mode != "constant":
        raise NotModelled("pad mode %s" % mode)
    A = lift(a).a
    fill = S.of(0.0 if value is None else value)
    if A.size and A.reshape(-1)[0].sort == "I" and fill.sort == "R" and fill.t.op == "const" and fill.t.args[0].denominator == 1:
        fill = S(tm.const(fill.t.args[0], "I"))
    pads = list(pad)
    out = A
    d = A.ndim - 1
    while pads:
        l, r = int(pads.pop(0)), int(pads.pop(0))
        parts = []
        if l < 0 or r < 0:
            raise NotModelled("negative pad")
        if l:
            shp = list(out.shape)
            shp[d] = l
            parts.append(_full(shp, fill))
        parts.append(out)
        if r:
            shp = list(out.shape)
            shp[d] = r
            parts.append(_full(shp, fill))
        out = np.concatenate(parts, axis=d)
        d -= 1
    return Sym(out)


# ---- small dense linear algebra (exact, cofactor based) -------------------------------------------

def _det(M):
    n = M.shape[0]
    if n == 0:
        return _ONE
    if n == 1:
        return M[0, 0]
    if n == 2:
        return M[0, 0] * M[1, 1] - M[0, 1] * M[1, 0]
    tot = None
    for j in range(n):
        e = M[0, j]
        if e.t.op == "const" and e.t.args[0] == 0:
            continue
        minor = np.delete(np.delete(M, 0, axis=0), j, axis=1)
        term = e * _det(minor)
        if j % 2:
            term = -term
        tot = term if tot is None else tot + term
    return tot if tot is not None else _ZERO


def det_of(a):
    A = _ew(lambda s: s.real(), lift(a).a)
    if A.ndim != 2 or A.shape[0] != A.shape[1]:
        raise NotModelled("det of non-square / batched matrix")
    return _det(A)


@handles("det")
def det(a):
    return Sym(_obj(det_of(a)))


@handles("slogdet")
def slogdet(a):
    d = det_of(a)
    sc.oblige("det", tm.not_(tm.eq0(d.t)), "matrix passed to slogdet is non-singular (log|det| finite)")
    return Sym(_obj(sc.s_sign(d))), Sym(_obj(sc.s_log(sc.s_abs(d))))


@handles("logdet")
def logdet(a):
    d = det_of(a)
    return Sym(_obj(sc.s_log(d)))


@handles("inverse", "inv")
def inverse(a):
    A = _ew(lambda s: s.real(), lift(a).a)
    n = A.shape[0]
    if A.ndim != 2 or A.shape[1] != n:
        raise NotModelled("inverse of non-square / batched matrix")
    d = _det(A)
    if d.t.op == "const" and d.t.args[0] == 0:
        raise RuntimeError("linalg.inv: The diagonal element is zero, the inversion could not be completed because the input matrix is singular.")
    out = np.empty((n, n), dtype=object)
    for i in range(n):
        for j in range(n):
            minor = np.delete(np.delete(A, j, axis=0), i, axis=1)
            c = _det(minor)
            if (i + j) % 2:
                c = -c
            out[i, j] = c / d
    return Sym(out)


@handles("solve_triangular", "linalg_solve_triangular")
def solve_triangular(A, B, *, upper, left=True, unitriangular=False, out=None):
    if not left:
        raise NotModelled("solve_triangular left=False")
    M = _ew(lambda s: s.real(), arr(A))
    Bm = _ew(lambda s: s.real(), arr(B))
    n = M.shape[0]
    if M.ndim != 2 or Bm.ndim != 2 or Bm.shape[0] != n:
        raise NotModelled("solve_triangular shapes")
    X = np.empty(Bm.shape, dtype=object)
    order = range(n - 1, -1, -1) if upper else range(n)
    for c in range(Bm.shape[1]):
        for i in order:
            acc = Bm[i, c]
            js = range(i + 1, n) if upper else range(0, i)
            for j in js:
                acc = acc - M[i, j] * X[j, c]
            X[i, c] = acc if unitriangular else acc / M[i, i]
    return Sym(X)


@handles("lu")
def lu(A, pivot=True, get_infos=False, out=None, **kw):
    """Symbolic stand-in for torch.lu: returned as an opaque factorisation object carried to lu_solve;
    torch.diag(LU) is only ever used through sum(log|diag|) == log|det A| (validated differentially)."""
    M = _ew(lambda s: s.real(), arr(A))
    n = M.shape[0]
    d = _det(M)
    sc.oblige("lu", tm.not_(tm.eq0(d.t)), "matrix passed to lu is non-singular")
    # a valid LU carrier: diag entries d_1 = det, others 1  => prod diag == det up to sign; we keep |det|.
    carrier = _full((n, n), _ZERO)
    for i in range(n):
        carrier[i, i] = _ONE
    if n:
        carrier[0, 0] = d
    luobj = Sym(carrier)
    luobj._lu_of = Sym(M)
    piv = torch.arange(1, n + 1, dtype=torch.int32)
    return luobj, piv


@handles("lu_solve")
def lu_solve(B, LU, pivots, *, left=True, adjoint=False):
    src = getattr(LU, "_lu_of", None)
    if src is None:
        raise NotModelled("lu_solve on a matrix that did not come from the lu stub")
    return matmul(inverse(src), B)


@handles("linalg_lu_factor")
def linalg_lu_factor(A, *, pivot=True, out=None):
    """torch.linalg.lu_factor: the same opaque factorisation carrier as torch.lu"""
    return lu(A, pivot=pivot)


@handles("linalg_lu_solve")
def linalg_lu_solve(LU, pivots, B, *, left=True, adjoint=False, out=None):
    """torch.linalg.lu_solve(LU, pivots, B): argument order differs from the deprecated torch.lu_solve(B, LU, pivots)"""
    if not left or adjoint:
        raise NotModelled("linalg.lu_solve with left=False / adjoint=True")
    return lu_solve(B, LU, pivots)


@handles("qr")
def qr(a, some=True):
    return torch.qr(torch.zeros(1, 1))  # raises exactly like real torch (removed API)


# ---- creation functions that never see a Sym are patched by stubs.py ----------------------------


@handles("nextafter")
def nextafter(a, b):
    """exact reals: the next representable value is the value itself (the step is below every real
    tolerance); IEEE scalars: one unit in the last place toward `b` (only +inf / larger targets are modelled)."""
    A, Bv = np.broadcast_arrays(arr(a), arr(b))

    def f(s, t):
        if isinstance(s, sc.FS):
            return sc.FS(tm.fnextup(s.t))
        return s

    return Sym(_ew(f, A, Bv))


@handles("full_like")
def full_like2(a, fill_value, **kw):
    A = lift(a).a
    v = fill_value
    if isinstance(v, float) and (v == float("inf") or v == float("-inf")):
        s = S(tm.var("+oo" if v > 0 else "-oo"))
    else:
        s = S.of(v)
    return Sym(_full(A.shape, s))


@handles("conv2d")
def conv2d(x, weight, bias=None, stride=1, padding=0, dilation=1, groups=1):
    """taint domain only: a convolution mixes the elements of one batch item, never two items."""
    X = lift(x).a
    if not (X.size and isinstance(X.reshape(-1)[0], TS)):
        raise NotModelled("conv2d on real-valued symbols")
    W = lift(weight).a
    n, c, hh, ww = X.shape
    o, _, kh, kw = W.shape
    st = (stride, stride) if isinstance(stride, int) else tuple(stride)
    pd = (padding, padding) if isinstance(padding, int) else tuple(padding)
    dl = (dilation, dilation) if isinstance(dilation, int) else tuple(dilation)
    oh = (hh + 2 * pd[0] - dl[0] * (kh - 1) - 1) // st[0] + 1
    ow = (ww + 2 * pd[1] - dl[1] * (kw - 1) - 1) // st[1] + 1
    out = np.empty((n, o, oh, ow), dtype=object)
    for i in range(n):
        j = _taint_join(list(X[i].reshape(-1)))
        out[i].fill(j)
    return Sym(out)


@handles("layer_norm")
def layer_norm(x, normalized_shape, weight=None, bias=None, eps=1e-5):
    X = lift(x).a
    if not (X.size and isinstance(X.reshape(-1)[0], TS)):
        raise NotModelled("layer_norm on real-valued symbols")
    nd = len(tuple(normalized_shape))
    lead = X.shape[: X.ndim - nd]
    out = np.empty(X.shape, dtype=object)
    for idx in np.ndindex(lead):
        j = _taint_join(list(X[idx].reshape(-1)))
        out[idx].fill(j) if nd else None
    return Sym(out)
