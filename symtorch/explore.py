"""Path exploration: the function under analysis is re-run once per feasible decision prefix.

`decide(cond)` is called by the engine whenever real control flow, a boolean mask used as an index, a
bool->number conversion or a symbolic index needs a concrete truth value.  Decisions are canonicalised
modulo negation and memoised per path; infeasible branches are pruned with a solver call under the
path condition (unknown => the branch is kept and the path is flagged `uncertain`).
"""
import time
import traceback

from . import term as tm
from . import smt


class NotModelled(Exception):
    """The engine has no model for an operation: the check ends inconclusive, never silently wrong."""


class Infeasible(BaseException):
    pass


class _Abort(BaseException):
    pass


class Obligation:
    __slots__ = ("kind", "cond", "n_dec", "n_asm", "where", "status")

    def __init__(self, kind, cond, n_dec, n_asm, where):
        self.kind, self.cond, self.n_dec, self.n_asm, self.where = kind, cond, n_dec, n_asm, where
        self.status = None


class Path:
    def __init__(self):
        self.decisions = []  # [(cond, taken_bool, forced)]
        self.decided = {}  # canonical cond -> bool
        self.assumed = []  # Bool terms assumed on this path (harness assumptions, proven obligations)
        self.obligations = []
        self.writes = []  # mutation log (C13)
        self.uncertain = False
        self.notes = []

    def condition(self, n_dec=None, n_asm=None):
        ds = self.decisions if n_dec is None else self.decisions[:n_dec]
        am = self.assumed if n_asm is None else self.assumed[:n_asm]
        out = [c if v else tm.not_(c) for c, v, _ in ds]
        return out + list(am)

    def describe(self):
        return [("%s" if v else "not(%s)") % tm.pretty(c) for c, v, _ in self.decisions]


class PathResult:
    def __init__(self, kind, value, path, exc=None, tb=None):
        self.kind = kind  # 'return' | 'raise' | 'notmodelled'
        self.value = value
        self.path = path
        self.exc = exc
        self.tb = tb


_CURRENT = [None]


def current():
    return _CURRENT[0]


def _canon(cond):
    n = tm.not_(cond)
    if n.op != "not" and (cond.op == "not" or n.id < cond.id):
        return n, False
    return cond, True


class Explorer:
    def __init__(self, registry, solver=None, assumptions=(), prune=True, max_paths=2000, decide_timeout=10.0, logic=None):
        self.reg = registry
        self.solver = solver or smt.Z3Proc()
        self.base = list(assumptions)
        self.prune = prune
        self.max_paths = max_paths
        self.decide_timeout = decide_timeout
        self.logic = logic
        self.path = None
        self.schedule = None
        self.work = None
        self.stats = {"prune_queries": 0, "prune_unknown": 0, "prune_s": 0.0, "runs": 0}

    # -- feasibility ------------------------------------------------------------------------------
    def _check(self, conds, timeout):
        script, _, _ = smt.build_script(self.reg, conds, logic=self.logic, want_model=False, timeout_ms=int(timeout * 1000))
        t0 = time.time()
        st, _, _ = self.solver.check(script, (), timeout_s=timeout + 2)
        self.stats["prune_queries"] += 1
        self.stats["prune_s"] += time.time() - t0
        return st

    def _quot_lemmas(self, rho, exact_conds):
        """bounds of a named quotient proven in the exact encoding under the current path (cached per path)."""
        cache = self.path.__dict__.setdefault("_lemmas", {})
        if rho in cache:
            return cache[rho]
        from . import scalars as _sc

        q = _sc.expand_quotients(rho)
        out = []
        for g, gx in ((tm.ge(rho, tm.ZERO), tm.ge(q, tm.ZERO)), (tm.le(rho, tm.ONE), tm.le(q, tm.ONE))):
            if self._check(list(exact_conds) + [tm.not_(gx)], self.decide_timeout) == "unsat":
                out.append(g)
        cache[rho] = out
        return out

    def feasible(self, extra):
        conds = self.base + self.path.condition() + list(extra)
        if any(c is tm.FALSE for c in conds):
            return "unsat"
        defs = getattr(self.reg, "quot_defs", None)
        if defs:
            from . import scalars as _sc

            exact_path = [_sc.expand_quotients(c) for c in self.base + self.path.condition()]
            rhos = [v for v in tm.free_vars(*conds) if v in defs]
            if rhos:
                lem = []
                for r in rhos:
                    lem += self._quot_lemmas(r, exact_path)
                if lem and self._check(conds + lem, min(self.decide_timeout, 5.0)) == "unsat":
                    return "unsat"  # infeasible already with the quotient generalised to its proven bounds
            conds = [_sc.expand_quotients(c) for c in conds]
            if any(c is tm.FALSE for c in conds):
                return "unsat"
        st = self._check(conds, self.decide_timeout)
        if st not in ("sat", "unsat"):
            self.stats["prune_unknown"] += 1
            return "unknown"
        return st

    # -- decisions --------------------------------------------------------------------------------
    def decide(self, cond):
        if cond is tm.TRUE:
            return True
        if cond is tm.FALSE:
            return False
        key, pol = _canon(cond)
        p = self.path
        if key in p.decided:
            return p.decided[key] == pol
        from . import scalars as _sc0

        if _sc0.REG is self.reg:
            _sc0.threshold_lemmas(key)
        i = len(p.decisions)
        if i < len(self.schedule):
            v = self.schedule[i]
            forced = False
        else:
            if self.prune:
                ft = self.feasible([key])
                ff = self.feasible([tm.not_(key)])
                if ft == "unknown" or ff == "unknown":
                    p.uncertain = True
            else:
                ft = ff = "sat"
            if ft == "unsat" and ff == "unsat":
                raise Infeasible()
            if ft == "unsat":
                v, forced = False, True
            elif ff == "unsat":
                v, forced = True, True
            else:
                v, forced = True, False
                self.work.append(self._prefix_values() + [False])
            self.schedule = self._prefix_values() + [v]
        p.decisions.append((key, v, forced))
        p.decided[key] = v
        return v == pol

    def _prefix_values(self):
        return [v for _, v, _ in self.path.decisions]

    # -- assumptions / obligations ----------------------------------------------------------------
    def assume(self, cond):
        if cond is tm.TRUE:
            return
        self.path.assumed.append(cond)

    def oblige(self, kind, cond, where=""):
        """Record that `cond` must hold here; afterwards it is assumed on the path."""
        if cond is tm.TRUE:
            return
        p = self.path
        p.obligations.append(Obligation(kind, cond, len(p.decisions), len(p.assumed), where))
        p.assumed.append(cond)

    # -- driver -----------------------------------------------------------------------------------
    def explore(self, fn):
        """Run fn() once per feasible path.  Returns [PathResult]."""
        results = []
        self.work = [[]]
        prev = _CURRENT[0]
        _CURRENT[0] = self
        try:
            while self.work:
                if len(results) >= self.max_paths:
                    raise NotModelled("path budget exceeded (%d)" % self.max_paths)
                self.schedule = self.work.pop()
                self.path = Path()
                self.reg.begin_run()
                self.stats["runs"] += 1
                try:
                    val = fn()
                    results.append(PathResult("return", val, self.path))
                except Infeasible:
                    continue
                except NotModelled as e:
                    results.append(PathResult("notmodelled", None, self.path, exc=e, tb=traceback.format_exc()))
                except Exception as e:  # noqa: the code under analysis raised
                    results.append(PathResult("raise", None, self.path, exc=e, tb=traceback.format_exc()))
        finally:
            _CURRENT[0] = prev
        return results


def decide(cond):
    ex = _CURRENT[0]
    if ex is None:
        raise NotModelled("symbolic branch outside an exploration: %s" % tm.pretty(cond))
    return ex.decide(cond)


def assume(cond):
    ex = _CURRENT[0]
    if ex is not None:
        ex.assume(cond)


def oblige(kind, cond, where=""):
    ex = _CURRENT[0]
    if ex is not None:
        ex.oblige(kind, cond, where)


def log_write(what):
    ex = _CURRENT[0]
    if ex is not None and ex.path is not None:
        ex.path.writes.append(what)
