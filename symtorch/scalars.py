"""Scalar abstract values (elements of a `Sym` tensor) and the exp/log/softplus/sqrt abstraction.

A scalar `S` is a term plus optional dual parts (forward-mode derivatives w.r.t. indexed seeds).
Transcendental functions are kept algebraic (DESIGN 3.2):

* exp(u):  u is split into its linear form c0 + sum c_i a_i;  exp(u) = EXP[c0] * prod EXP[a_i]^c_i where
  EXP[log p] = p, EXP[softplus v] = 1 + EXP[v], and any other a_i gives the positive atom exp(a_i);
  rational powers introduce root atoms (r > 0, r^q = base).
* log(p): atom log(p) (free real; relations are recovered when it is exponentiated).
* softplus(u): positive atom with softplus(u) > u; softplus(-a) is rewritten to softplus(a) - a.
* sqrt(a): atom s >= 0 with s*s = a.
* constants: exp/log/softplus of a rational constant is an atom enclosed by a tight numeric interval.
"""
from fractions import Fraction
import math

import numpy as np

from . import term as tm
from .term import T
from . import explore
from .explore import NotModelled


# ----------------------------------------------------------------------------------------------
class Registry:
    def __init__(self):
        self.var_axioms = {}  # var term -> [Bool terms]
        self.atom_axioms = {}  # app term -> [Bool terms]
        self.atom_names = {}
        self.ufs = set()
        self.sign = {}  # term -> '+', '-', '+0', '-0'
        self.memo = {}  # key -> anything (simplex vars, stub outputs ...)
        self.run_counters = {}
        self.n_atoms = 0
        self.replay_hints = {}  # var term -> ('softmax', group, idx) / ('softplus', arg term) ...

    def begin_run(self):
        self.run_counters = {}

    def fresh_name(self, prefix):
        k = self.run_counters.get(prefix, 0)
        self.run_counters[prefix] = k + 1
        return "%s%d" % (prefix, k)

    def declare(self, name, sort="R", lo=None, hi=None, lo_strict=True, hi_strict=True, axioms=()):
        v = tm.var(name, sort)
        ax = []
        if lo is not None:
            c = tm.const(lo, sort) if not isinstance(lo, T) else lo
            ax.append(tm.lt(c, v) if lo_strict else tm.le(c, v))
            if not isinstance(lo, T) and tm.read_float(lo) >= 0:
                self.sign[v] = "+" if (lo_strict or tm.read_float(lo) > 0) else "+0"
        if hi is not None:
            c = tm.const(hi, sort) if not isinstance(hi, T) else hi
            ax.append(tm.lt(v, c) if hi_strict else tm.le(v, c))
            if not isinstance(hi, T) and tm.read_float(hi) <= 0 and v not in self.sign:
                self.sign[v] = "-" if (hi_strict or tm.read_float(hi) < 0) else "-0"
        ax.extend(axioms)
        if ax:
            self.var_axioms.setdefault(v, [])
            for a in ax:
                if a not in self.var_axioms[v]:
                    self.var_axioms[v].append(a)
        return v

    def add_axiom(self, v, ax):
        d = self.var_axioms if v.op == "var" else self.atom_axioms
        d.setdefault(v, [])
        if ax not in d[v]:
            d[v].append(ax)

    def is_uf(self, fname):
        return fname in self.ufs

    def declare_uf(self, fname):
        self.ufs.add(fname)

    def atom_name(self, t):
        nm = self.atom_names.get(t)
        if nm is None:
            self.n_atoms += 1
            nm = "%s!%d" % (t.args[0], self.n_atoms)
            self.atom_names[t] = nm
        return nm

    def axiom_closure(self, roots):
        out = []
        seen_ax = set()
        seen_nodes = set()
        frontier = list(roots)
        while frontier:
            nodes = [n for n in tm.walk(frontier) if n not in seen_nodes]
            frontier = []
            for n in nodes:
                seen_nodes.add(n)
                axs = None
                if n.op == "var":
                    axs = self.var_axioms.get(n)
                elif n.op == "app":
                    axs = self.atom_axioms.get(n)
                if axs:
                    for a in axs:
                        if a not in seen_ax:
                            seen_ax.add(a)
                            out.append(a)
                            frontier.append(a)
        return out


REG = Registry()
DEFINE_SQRT_QUOTIENTS = [False]
BOOL_TO_NUM = ["fork"]
MINMAX_FORK = [False]
IGNORE_DETACH = [False]  # C16: second run in which detach / no_grad / .data do NOT clear derivatives


def new_registry():
    global REG
    REG = Registry()
    return REG


def reg():
    return REG


# ----------------------------------------------------------------------------------------------
# cheap sign analysis (used to resolve abs/sign and to discharge trivial obligations syntactically)

def _flip(s):
    return {"+": "-", "-": "+", "+0": "-0", "-0": "+0", "0": "0"}.get(s)


def sign_of(t, _depth=0):
    """'+', '-', '0', '+0' (>=0), '-0' (<=0) or None."""
    if _depth > 30:
        return None
    op = t.op
    if op == "const":
        v = t.args[0]
        return "+" if v > 0 else ("-" if v < 0 else "0")
    s = REG.sign.get(t)
    if s is not None:
        return s
    if op == "app":
        f = t.args[0]
        if f in ("exp", "softplus", "root"):
            return "+"
        if f == "sqrt":
            return "+0"
        return None
    if op == "to_real":
        return sign_of(t.args[0], _depth + 1)
    if op == "add":
        c0, items = t.args
        signs = [sign_of(tm.const(c0))] if c0 != 0 else []
        for c, b in items:
            sb = sign_of(b, _depth + 1)
            if sb is None:
                return None
            signs.append(sb if c > 0 else _flip(sb))
        if all(s in ("+", "+0", "0") for s in signs):
            return "+" if any(s == "+" for s in signs) else "+0"
        if all(s in ("-", "-0", "0") for s in signs):
            return "-" if any(s == "-" for s in signs) else "-0"
        return None
    if op == "mul":
        res = "+"
        for b, e in t.args:
            sb = sign_of(b, _depth + 1)
            if sb is None:
                if e % 2 == 0 and e > 0:
                    sb = "+0"
                else:
                    return None
            elif e % 2 == 0:
                sb = "+" if sb in ("+", "-") else "+0"
            if e < 0 and sb not in ("+", "-"):
                return None
            if sb == "0":
                return "0"
            neg = sb in ("-", "-0")
            weak = sb in ("+0", "-0")
            if neg:
                res = _flip(res)
            if weak and res in ("+", "-"):
                res = res + "0"
        return res
    if op == "ite":
        a, b = sign_of(t.args[1], _depth + 1), sign_of(t.args[2], _depth + 1)
        if a is None or b is None:
            return None
        if a == b:
            return a
        if a in ("+", "+0", "0") and b in ("+", "+0", "0"):
            return "+0"
        if a in ("-", "-0", "0") and b in ("-", "-0", "0"):
            return "-0"
        return None
    return None


def known_true(cond):
    """Syntactic truth of a Bool term through the sign analysis (None when undecided)."""
    if cond is tm.TRUE:
        return True
    if cond is tm.FALSE:
        return False
    if cond.op in ("le0", "lt0", "eq0"):
        s = sign_of(cond.args[0])
        if s is None:
            return None
        if cond.op == "le0":
            return True if s in ("-", "-0", "0") else (False if s == "+" else None)
        if cond.op == "lt0":
            return True if s == "-" else (False if s in ("+", "+0", "0") else None)
        if cond.op == "eq0":
            return True if s == "0" else (False if s in ("+", "-") else None)
    if cond.op == "not":
        r = known_true(cond.args[0])
        return None if r is None else (not r)
    if cond.op == "and":
        rs = [known_true(c) for c in cond.args]
        if all(r is True for r in rs):
            return True
        if any(r is False for r in rs):
            return False
    if cond.op == "or":
        rs = [known_true(c) for c in cond.args]
        if any(r is True for r in rs):
            return True
        if all(r is False for r in rs):
            return False
    return None


def oblige(kind, cond, where=""):
    kt = known_true(cond)
    if kt is True:
        ex = explore.current()
        if ex is not None and ex.path is not None:
            ex.path.notes.append(("syntactic", kind))
        return
    explore.oblige(kind, cond, where)


# ----------------------------------------------------------------------------------------------
# transcendental abstraction on terms

_SLACK = Fraction(1, 10 ** 13)


def _enclose(atom, value):
    """Numeric enclosure axioms for a constant-argument atom (math.* is accurate to < 1 ulp)."""
    v = Fraction(value)
    w = abs(v) * _SLACK + Fraction(1, 10 ** 300)
    REG.add_axiom(atom, tm.le(tm.const(v - w), atom))
    REG.add_axiom(atom, tm.le(atom, tm.const(v + w)))
    if value > 0:
        REG.sign[atom] = "+"
    elif value < 0:
        REG.sign[atom] = "-"


def _root(base, q):
    if base.op == "const":
        v = base.args[0]
        # exact rational roots
        for num in (v.numerator,):
            rn = round(abs(v.numerator) ** (1.0 / q))
            rd = round(v.denominator ** (1.0 / q))
            for a in (rn - 1, rn, rn + 1):
                for b in (rd - 1, rd, rd + 1):
                    if b > 0 and a >= 0 and Fraction(a, b) ** q == v:
                        return tm.const(Fraction(a, b))
    r = tm.app("root", [base, tm.const(Fraction(q), "I")])
    REG.add_axiom(r, tm.gt(r, tm.ZERO))
    REG.add_axiom(r, tm.eq(tm.power(r, q), base))
    return r


def _rat_power(base, c):
    c = Fraction(c)
    if c.denominator == 1:
        return tm.power(base, c.numerator)
    return tm.power(_root(base, c.denominator), c.numerator)


def _exp_atom(a):
    if a.op == "app":
        f = a.args[0]
        if f == "log":
            return a.args[1]
        if f == "softplus":
            return tm.add(tm.ONE, t_exp(a.args[1]))
    if a.op == "ite":
        return tm.ite(a.args[0], t_exp(a.args[1]), t_exp(a.args[2]))
    if a.op == "to_real" and a.args[0].op == "ite":
        i = a.args[0]
        return tm.ite(i.args[0], t_exp(tm.to_real(i.args[1])), t_exp(tm.to_real(i.args[2])))
    e = tm.app("exp", [a])
    REG.add_axiom(e, tm.gt(e, tm.ZERO))
    return e


def _snap_exp(c0):
    """A float constant that is the double nearest to log(q) for a simple rational q is read as log(q)
    (so that exp(-np.log(1.0 / num_bins)) is exactly num_bins), in the spirit of term.read_float."""
    x = float(c0)
    try:
        v = math.exp(x)
    except OverflowError:
        return None
    q = tm.simplest_between(Fraction(v) * (1 - Fraction(1, 10 ** 13)), Fraction(v) * (1 + Fraction(1, 10 ** 13)))
    if q <= 0 or q.denominator > 10 ** 4 or q.numerator > 10 ** 6:
        return None
    back = math.log(q.numerator) - math.log(q.denominator)
    if abs(back - x) <= 4 * math.ulp(x if x != 0 else 1.0):
        return q
    return None


def t_exp(u):
    u = tm.to_real(u) if u.sort == "I" else u
    c0, items = tm.linear_form(u)
    factors = []
    if c0 != 0:
        q = _snap_exp(c0)
        if q is not None:
            factors.append(tm.const(q))
        else:
            e = tm.app("exp", [tm.const(c0)])
            _enclose(e, Fraction(math.exp(float(c0))))
            factors.append(e)
    for c, a in items:
        if c.denominator <= 12:
            factors.append(_rat_power(_exp_atom(a), c))
        else:
            # a non-simple rational coefficient (e.g. 1/alpha of LogTanh): keep it inside the atom, sign-normalised
            if a.op == "app" and a.args[0] == "log" and False:
                pass
            e = tm.app("exp", [tm.scale(abs(c), a)])
            REG.add_axiom(e, tm.gt(e, tm.ZERO))
            factors.append(e if c > 0 else tm.power(e, -1))
    if not factors:
        return tm.ONE
    return tm.mul(*factors)


def _log_positive_product(p):
    """log of c * prod atoms^k / prod factors^e as a sum of logs, when every piece is syntactically positive
    (exp / softplus / positive variables): keeps  log(y) - log(1 - y)  with y = E/(1+E)  algebraic."""
    from . import poly

    try:
        r = poly.Expander().rat(p).cancel()
    except (poly.TooBig, RecursionError, ZeroDivisionError):
        return None
    if not r.num:
        return None
    pieces = []
    # numerator: a single monomial, or a positive polynomial kept as one log atom
    if len(r.num) == 1:
        (mono, c), = r.num.items()
        if c <= 0:
            return None
        for aid, e in mono:
            a = poly._ATOMS[aid]
            if sign_of(a) != "+":
                return None
            pieces.append((Fraction(e), a))
        const = Fraction(c)
    else:
        nt = poly.poly_term(r.num)
        if sign_of(nt) != "+":
            return None
        pieces.append((Fraction(1), nt))
        const = Fraction(1)
    for k, (f, e) in r.den.items():
        ft = poly.poly_term(f)
        s_ = sign_of(ft)
        if s_ != "+":
            return None
        pieces.append((Fraction(-e), ft))
    if len(pieces) == 1 and pieces[0][0] == 1 and const == 1 and pieces[0][1] is p:
        return None
    out = [t_log(tm.const(const))] if const != 1 else []
    for k, a in pieces:
        la = a.args[1] if (a.op == "app" and a.args[0] == "exp") else tm.app("log", [a])
        out.append(tm.scale(k, la))
    return tm.add(*out) if out else tm.ZERO


def t_log(p):
    if p.op == "const":
        v = p.args[0]
        if v == 1:
            return tm.ZERO
        if v <= 0:
            raise ValueError("log of non-positive constant")
        a = tm.app("log", [p])
        _enclose(a, Fraction(math.log(v.numerator) - math.log(v.denominator)))
        return a
    if p.op == "app" and p.args[0] == "exp":
        return p.args[1]
    if p.op == "ite":
        return tm.ite(p.args[0], t_log(p.args[1]), t_log(p.args[2]))
    if p.op in ("mul", "add") and tm.size(p) < 60 and any(a.args[0] in ("exp", "softplus") for a in tm.atoms(p)):
        r = _log_positive_product(p)
        if r is not None:
            return r
    return tm.app("log", [p])


def t_softplus(u):
    if u.op == "const":
        a = tm.app("softplus", [u])
        x = float(u.args[0])
        _enclose(a, Fraction(math.log1p(math.exp(-abs(x))) + max(x, 0.0)))
        return a
    c0, items = tm.linear_form(u)
    if items and items[0][0] < 0:
        # softplus(u) = softplus(-u) + u
        return tm.add(t_softplus(tm.neg(u)), u)
    a = tm.app("softplus", [u])
    REG.add_axiom(a, tm.gt(a, tm.ZERO))
    REG.add_axiom(a, tm.gt(a, u))
    return a


def t_sqrt(a):
    if a.op == "const":
        v = a.args[0]
        if v < 0:
            raise ValueError("sqrt of negative constant")
        r = _root(a, 2)
        if r.op == "const":
            return r
        s = tm.app("sqrt", [a])
        _enclose(s, Fraction(math.sqrt(float(v))))
        REG.add_axiom(s, tm.eq(tm.mul(s, s), a))
        return s
    if a.op == "mul" and all(e % 2 == 0 for _, e in a.args):
        half = tm.mul(*[tm.power(b, e // 2) for b, e in a.args])
        return t_abs(half)
    s = tm.app("sqrt", [a])
    REG.add_axiom(s, tm.ge(s, tm.ZERO))
    REG.add_axiom(s, tm.eq(tm.mul(s, s), a))
    return s


def t_abs(u):
    s = sign_of(u)
    if s in ("+", "+0", "0"):
        return u
    if s in ("-", "-0"):
        return tm.neg(u)
    return tm.ite(tm.lt0(u), tm.neg(u), u)


def t_sign(u):
    s = sign_of(u)
    if s == "+":
        return tm.ONE
    if s == "-":
        return tm.const(-1)
    if s == "0":
        return tm.ZERO
    return tm.ite(tm.lt0(u), tm.const(-1), tm.ite(tm.eq0(u), tm.ZERO, tm.ONE))


def t_atan(u):
    if u.op == "const" and u.args[0] == 0:
        return tm.ZERO
    if u.op == "app" and u.args[0] == "tan" and len(u.args) == 2:
        # atan(tan(v)) == v on the principal branch; the branch condition is an obligation of the path
        v = u.args[1]
        hp = tm.scale(Fraction(1, 2), REG.pi) if getattr(REG, "pi", None) is not None else tm.const(Fraction(15707963267948966, 10 ** 16))
        oblige("principal-branch", tm.and_(tm.lt(v, hp), tm.gt(v, tm.neg(hp))), "atan(tan(v)) == v needs |v| < pi/2")
        return v
    a = tm.app("atan", [u])
    half_pi = tm.scale(Fraction(1, 2), REG.pi) if getattr(REG, "pi", None) is not None else tm.const(Fraction(15707963267948967, 10 ** 16))
    REG.add_axiom(a, tm.lt(a, half_pi))
    REG.add_axiom(a, tm.gt(a, tm.neg(half_pi)))
    return a


def t_tan(u):
    if u.op == "app" and u.args[0] == "atan":
        return u.args[1]
    c, b = tm._split_coeff(u)
    if b is not None and c < 0:
        return tm.neg(t_tan(tm.neg(u)))
    return tm.app("tan", [u])


def t_opaque(name, *args):
    return tm.app(name, list(args))


def expand_quotients(t):
    """replace every named quotient (see DEFINE_SQRT_QUOTIENTS) by its defining term."""
    defs = getattr(REG, "quot_defs", None)
    if not defs:
        return t
    for _ in range(8):
        present = [v for v in tm.free_vars(t) if v in defs]
        if not present:
            return t
        t = subst(t, {v: defs[v] for v in present})
    return t


def rebuild_app(name, args, sort="R"):
    """re-create an atom through its constructor so that its defining axioms are registered."""
    if name == "sqrt":
        return t_sqrt(args[0])
    if name == "exp":
        return t_exp(args[0])
    if name == "log":
        return t_log(args[0])
    if name == "softplus":
        return t_softplus(args[0])
    if name == "root":
        return _root(args[0], int(args[1].args[0]))
    if name == "atan":
        return t_atan(args[0])
    if name == "tan" and len(args) == 1:
        return t_tan(args[0])
    return tm.app(name, args, sort)


def subst(t, mapping):
    """term substitution that keeps the axioms of rebuilt atoms (tm.subst would drop them)."""
    memo = {}

    def go(u):
        if u in mapping:
            return mapping[u]
        r = memo.get(u)
        if r is not None:
            return r
        if u.op == "app":
            r = rebuild_app(u.args[0], [go(a) if isinstance(a, T) else a for a in u.args[1:]], u.sort)
        elif not tm.children(u):
            r = u
        else:
            kids = tm.children(u)
            sub = {k: go(k) for k in kids}
            r = u if all(sub[k] is k for k in kids) else tm.subst(u, sub, {})
        memo[u] = r
        return r

    return go(t)


# ----------------------------------------------------------------------------------------------
# scalars

def _is_num(x):
    return isinstance(x, (int, float, Fraction, np.integer, np.floating, np.bool_, bool))


def _bits(x):
    if isinstance(x, np.float32):
        return 24
    if isinstance(x, np.float16):
        return 11
    return 53


def lift_num(x):
    if isinstance(x, (bool, np.bool_)):
        return S(tm.TRUE if x else tm.FALSE)
    if isinstance(x, (int, np.integer)):
        return S(tm.const(Fraction(int(x)), "I"))
    if isinstance(x, Fraction):
        return S(tm.const(x))
    return S(tm.const(tm.read_float(float(x), _bits(x))))


def _dual_lin(pairs):
    """sum of k * d for (k term, d dict) pairs."""
    out = {}
    for k, d in pairs:
        if not d:
            continue
        for i, v in d.items():
            tv = tm.mul(k, v)
            out[i] = tm.add(out[i], tv) if i in out else tv
    out = {i: v for i, v in out.items() if not (v.op == "const" and v.args[0] == 0)}
    return out or None


class S:
    """Scalar: term + dual parts."""

    __slots__ = ("t", "d")
    __array_priority__ = 1000

    def __init__(self, t, d=None):
        self.t = t
        self.d = d

    # ---- coercion ----
    @staticmethod
    def of(x):
        if isinstance(x, S):
            return x
        if _is_num(x):
            return lift_num(x)
        if isinstance(x, T):
            return S(x)
        return None

    @property
    def sort(self):
        return self.t.sort

    def is_const(self):
        return self.t.op in ("const", "true", "false")

    def real(self):
        if self.t.sort == "B":
            if BOOL_TO_NUM[0] == "ite":
                return S(tm.ite(self.t, tm.ONE, tm.ZERO))
            # bool -> number: fork (concrete 0/1), see DESIGN 2.3
            return S(tm.ONE if bool(self) else tm.ZERO)
        if self.t.sort == "I":
            return S(tm.to_real(self.t), self.d)
        return self

    def num(self):
        if self.t.sort == "B":
            if BOOL_TO_NUM[0] == "ite":
                return S(tm.ite(self.t, tm.IONE, tm.IZERO))
            return S(tm.IONE if bool(self) else tm.IZERO)
        return self

    def nodual(self):
        if IGNORE_DETACH[0]:
            return self
        return S(self.t) if self.d else self

    # ---- python protocol ----
    def __repr__(self):
        return "S(%s)" % tm.pretty(self.t)

    def __bool__(self):
        t = self.t
        if t.sort != "B":
            if t.op == "const":
                return t.args[0] != 0
            return explore.decide(tm.not_(tm.eq0(t)))
        if t is tm.TRUE:
            return True
        if t is tm.FALSE:
            return False
        return explore.decide(t)

    def concrete(self):
        """python value of a constant scalar, forking on symbolic bools."""
        t = self.t
        if t.sort == "B":
            return bool(self)
        if t.op == "const":
            v = t.args[0]
            return int(v) if t.sort == "I" else v
        raise NotModelled("concrete value of symbolic scalar %s needed" % tm.pretty(t))

    def __int__(self):
        v = self.concrete()
        if isinstance(v, Fraction) and v.denominator != 1:
            return int(math.floor(v)) if v >= 0 else -int(math.floor(-v))
        return int(v)

    __index__ = __int__

    def __float__(self):
        return float(self.concrete())

    def __hash__(self):
        return hash(self.t)

    # ---- arithmetic ----
    def _bin(self, o):
        if isinstance(o, FS) and not isinstance(self, FS):
            return None, None  # let the IEEE scalar's reflected operator handle it
        o = S.of(o)
        if o is None:
            return None, None
        a, b = self.num(), o.num()
        return a, b

    def __add__(self, o):
        a, b = self._bin(o)
        if a is None:
            return NotImplemented
        return S(tm.add(a.t, b.t), _dual_lin([(tm.ONE, a.d), (tm.ONE, b.d)]) if (a.d or b.d) else None)

    __radd__ = __add__

    def __neg__(self):
        a = self.num()
        return S(tm.neg(a.t), _dual_lin([(tm.const(-1), a.d)]) if a.d else None)

    def __pos__(self):
        return self

    def __sub__(self, o):
        a, b = self._bin(o)
        if a is None:
            return NotImplemented
        return S(tm.sub(a.t, b.t), _dual_lin([(tm.ONE, a.d), (tm.const(-1), b.d)]) if (a.d or b.d) else None)

    def __rsub__(self, o):
        a, b = self._bin(o)
        if a is None:
            return NotImplemented
        return b.__sub__(a)

    def __mul__(self, o):
        a, b = self._bin(o)
        if a is None:
            return NotImplemented
        d = _dual_lin([(b.t, a.d), (a.t, b.d)]) if (a.d or b.d) else None
        return S(tm.mul(a.t, b.t), d)

    __rmul__ = __mul__

    def __truediv__(self, o):
        a, b = self._bin(o)
        if a is None:
            return NotImplemented
        a, b = a.real(), b.real()
        if b.t.op == "const":
            if b.t.args[0] == 0:
                oblige("div", tm.FALSE, "division by constant zero")
                raise ZeroDivisionError("symbolic engine: division by constant zero")
        else:
            oblige("div", tm.not_(tm.eq0(b.t)), "divisor != 0")
        q = tm.div(a.t, b.t)
        if DEFINE_SQRT_QUOTIENTS[0] and not (a.d or b.d) and b.t.op != "const" and any(x.args[0] == "sqrt" for x in tm.atoms(b.t)):
            # name the quotient: rho * den == num.  Later terms are polynomial in rho instead of carrying
            # the nested radical; sound (rho is exactly the quotient because den != 0 was just obliged).
            key = ("quot", q)
            rho = REG.memo.get(key)
            if rho is None:
                rho = tm.var("quot!%d" % len(REG.memo))
                REG.memo[key] = rho
                REG.quot_defs = getattr(REG, "quot_defs", {})
                REG.quot_defs[rho] = q
            return S(rho)
        d = None
        if a.d or b.d:
            inv = tm.power(b.t, -1)
            d = _dual_lin([(inv, a.d), (tm.neg(tm.mul(q, inv)), b.d)])
        return S(q, d)

    def __rtruediv__(self, o):
        a, b = self._bin(o)
        if a is None:
            return NotImplemented
        return b.__truediv__(a)

    def __floordiv__(self, o):
        a, b = self._bin(o)
        if a is None:
            return NotImplemented
        if a.sort == "I" and b.t.op == "const" and b.sort == "I":
            return S(tm.idiv(a.t, int(b.t.args[0])))
        raise NotModelled("floordiv")

    def __mod__(self, o):
        a, b = self._bin(o)
        if a is None:
            return NotImplemented
        if a.sort == "I" and b.t.op == "const" and b.sort == "I":
            return S(tm.imod(a.t, int(b.t.args[0])))
        raise NotModelled("mod")

    def __pow__(self, o):
        o = S.of(o)
        if o is None:
            return NotImplemented
        a = self.num()
        if o.t.op != "const":
            raise NotModelled("symbolic exponent")
        e = o.t.args[0]
        if e.denominator != 1:
            if e == Fraction(1, 2):
                return s_sqrt(a)
            raise NotModelled("fractional power %s" % e)
        n = int(e)
        if n < 0:
            a = a.real()
            if a.t.op != "const":
                oblige("div", tm.not_(tm.eq0(a.t)), "base of negative power != 0")
        d = None
        if a.d and n != 0:
            d = _dual_lin([(tm.scale(Fraction(n), tm.power(a.t, n - 1)), a.d)])
        return S(tm.power(a.t, n), d)

    def __abs__(self):
        return s_abs(self)

    # ---- comparisons ----
    def _cmp(self, o, f):
        a, b = self._bin(o)
        if a is None:
            return NotImplemented
        return S(f(a.t, b.t))

    def __lt__(self, o):
        return self._cmp(o, tm.lt)

    def __le__(self, o):
        return self._cmp(o, tm.le)

    def __gt__(self, o):
        return self._cmp(o, tm.gt)

    def __ge__(self, o):
        return self._cmp(o, tm.ge)

    def eq(self, o):
        o = S.of(o)
        if self.sort == "B" or o.sort == "B":
            a = self.t if self.sort == "B" else tm.not_(tm.eq0(self.t))
            b = o.t if o.sort == "B" else tm.not_(tm.eq0(o.t))
            return S(tm.eq(a, b))
        return S(tm.eq(self.t, o.t))

    def ne(self, o):
        return S(tm.not_(self.eq(o).t))

    # bool algebra
    def _b(self):
        if self.sort == "B":
            return self.t
        return tm.not_(tm.eq0(self.t))

    def __and__(self, o):
        o = S.of(o)
        if self.sort == "B" or o.sort == "B":
            return S(tm.and_(self._b(), o._b()))
        raise NotModelled("bitwise and on numbers")

    __rand__ = __and__

    def __or__(self, o):
        o = S.of(o)
        if self.sort == "B" or o.sort == "B":
            return S(tm.or_(self._b(), o._b()))
        raise NotModelled("bitwise or on numbers")

    __ror__ = __or__

    def __invert__(self):
        if self.sort == "B":
            return S(tm.not_(self.t))
        raise NotModelled("bitwise not on numbers")


# ---- unary functions on scalars ---------------------------------------------------------------

def _chain(a, val, deriv_fn):
    d = None
    if a.d:
        d = _dual_lin([(deriv_fn(), a.d)])
    return S(val, d)


def s_exp(a):
    a = a.real()
    v = t_exp(a.t)
    return _chain(a, v, lambda: v)


def s_log(a):
    a = a.real()
    oblige("log", tm.gt(a.t, tm.ZERO), "log argument > 0")
    v = t_log(a.t)
    return _chain(a, v, lambda: tm.power(a.t, -1))


def s_log1p(a):
    return s_log(a + 1)


def s_softplus(a, beta=1, threshold=20):
    a = a.real()
    if beta != 1:
        b = S.of(beta).real()
        return s_softplus(a * b) / b
    v = t_softplus(a.t)
    return _chain(a, v, lambda: t_sigmoid(a.t))


def t_sigmoid(u):
    e = t_exp(u)
    return tm.div(e, tm.add(tm.ONE, e))


def s_sigmoid(a):
    a = a.real()
    v = t_sigmoid(a.t)
    return _chain(a, v, lambda: tm.mul(v, tm.sub(tm.ONE, v)))


def s_tanh(a):
    a = a.real()
    e2 = t_exp(tm.scale(Fraction(2), a.t))
    v = tm.div(tm.sub(e2, tm.ONE), tm.add(e2, tm.ONE))
    return _chain(a, v, lambda: tm.sub(tm.ONE, tm.mul(v, v)))


def s_sqrt(a):
    a = a.real()
    oblige("sqrt", tm.ge(a.t, tm.ZERO), "sqrt argument >= 0")
    v = t_sqrt(a.t)
    if a.d:
        if v.op != "const":
            oblige("dsqrt", tm.not_(tm.eq0(v)), "derivative of sqrt finite (argument != 0)")
        return S(v, _dual_lin([(tm.div(tm.const(Fraction(1, 2)), v), a.d)]))
    return S(v)


def s_abs(a):
    a = a.num()
    v = t_abs(a.t)
    if a.d:
        return S(v, _dual_lin([(t_sign(a.t), a.d)]))
    return S(v)


def s_sign(a):
    a = a.num()
    return S(t_sign(a.t))


def s_atan(a):
    a = a.real()
    v = t_atan(a.t)
    return _chain(a, v, lambda: tm.power(tm.add(tm.ONE, tm.mul(a.t, a.t)), -1))


def s_tan(a):
    a = a.real()
    v = t_tan(a.t)
    return _chain(a, v, lambda: tm.add(tm.ONE, tm.mul(v, v)))


def s_opaque(name):
    def f(*args):
        args = [S.of(x).real() for x in args]
        if any(x.d for x in args):
            raise NotModelled("derivative of opaque %s" % name)
        return S(t_opaque(name, *[x.t for x in args]))

    return f


def s_floor(a):
    a = a.num()
    if a.sort == "I":
        return a
    return S(tm.to_real(tm.floor(a.t)))


def s_where(c, a, b):
    c, a, b = S.of(c), S.of(a), S.of(b)
    if c.t is tm.TRUE:
        return a
    if c.t is tm.FALSE:
        return b
    if a.sort == "B" and b.sort == "B":
        return S(tm.ite(c.t, a.t, b.t))
    a, b = a.num(), b.num()
    d = None
    if a.d or b.d:
        keys = set(a.d or ()) | set(b.d or ())
        d = {}
        for i in keys:
            x = (a.d or {}).get(i, tm.ZERO)
            y = (b.d or {}).get(i, tm.ZERO)
            v = tm.ite(c.t, x, y)
            if not (v.op == "const" and v.args[0] == 0):
                d[i] = v
        d = d or None
    return S(tm.ite(c.t, a.t, b.t), d)


def s_min(a, b):
    a, b = S.of(a).num(), S.of(b).num()
    c = tm.le(a.t, b.t)
    kt = known_true(c)
    if kt is True:
        return a
    if kt is False:
        return b
    if MINMAX_FORK[0] and explore.current() is not None:
        return a if explore.decide(c) else b
    return s_where(S(c), a, b)


def s_max(a, b):
    a, b = S.of(a).num(), S.of(b).num()
    c = tm.ge(a.t, b.t)
    kt = known_true(c)
    if kt is True:
        return a
    if kt is False:
        return b
    if MINMAX_FORK[0] and explore.current() is not None:
        return a if explore.decide(c) else b
    return s_where(S(c), a, b)


def seed(s, index):
    """Attach a unit dual part (derivative seed) to a scalar."""
    return S(s.t, {index: tm.ONE})


# ----------------------------------------------------------------------------------------------
# IEEE scalars (QF_FP), for the bin-search / mask kernels only

class FS(S):
    """floating-point scalar: every operation rounds (RNE) like the real kernel does."""

    __slots__ = ()

    @staticmethod
    def lift(x, prec):
        if isinstance(x, FS):
            return x
        if isinstance(x, S):
            if x.t.op != "const":
                raise NotModelled("mixing symbolic reals with IEEE scalars")
            return FS(tm.fconst(float(x.t.args[0]), prec))
        if _is_num(x):
            return FS(tm.fconst(float(x), prec))
        return None

    def real(self):
        return self

    def num(self):
        return self

    def nodual(self):
        return self

    def is_const(self):
        return self.t.op == "fconst"

    def concrete(self):
        if self.t.op == "fconst":
            return self.t.args[1]
        raise NotModelled("concrete value of symbolic IEEE scalar")

    def _o(self, o):
        return FS.lift(o, self.t.sort)

    def __add__(self, o):
        o = self._o(o)
        return NotImplemented if o is None else FS(tm.fop("add", self.t, o.t))

    __radd__ = __add__

    def __sub__(self, o):
        o = self._o(o)
        return NotImplemented if o is None else FS(tm.fop("sub", self.t, o.t))

    def __rsub__(self, o):
        o = self._o(o)
        return NotImplemented if o is None else FS(tm.fop("sub", o.t, self.t))

    def __mul__(self, o):
        o = self._o(o)
        return NotImplemented if o is None else FS(tm.fop("mul", self.t, o.t))

    __rmul__ = __mul__

    def __truediv__(self, o):
        o = self._o(o)
        return NotImplemented if o is None else FS(tm.fop("div", self.t, o.t))

    def __rtruediv__(self, o):
        o = self._o(o)
        return NotImplemented if o is None else FS(tm.fop("div", o.t, self.t))

    def __neg__(self):
        return FS(tm.fneg(self.t))

    def _c(self, o, op):
        o = self._o(o)
        return NotImplemented if o is None else S(tm.fcmp(op, self.t, o.t))

    def __lt__(self, o):
        return self._c(o, "lt")

    def __le__(self, o):
        return self._c(o, "leq")

    def __gt__(self, o):
        return self._c(o, "gt")

    def __ge__(self, o):
        return self._c(o, "geq")

    def eq(self, o):
        return self._c(o, "eq")

    def ne(self, o):
        return S(tm.not_(self._c(o, "eq").t))

    def __bool__(self):
        raise NotModelled("truth value of an IEEE scalar")


def fp_var(name, prec="F32"):
    return FS(tm.fvar(name, prec))


# ---- comparisons of an exp/log atom with a constant ---------------------------------------------------
# exp and log are abstracted (atoms + axioms); a branch condition  exp(u) <= c  or  log(v) <= c  with a constant c
# is decidable exactly through monotonicity:  exp(u) <= c  <=>  u <= log c.  log c / exp c enter as fresh
# variables with a rigorous 40-digit enclosure (decimal arithmetic), so the lemma is sound in the reals.

def _dec_enclosure(fn, c):
    from decimal import Decimal, getcontext, localcontext

    with localcontext() as ctx:
        ctx.prec = 80
        d = Decimal(c.numerator) / Decimal(c.denominator)
        v = d.ln() if fn == "log" else d.exp()
        fr = Fraction(v)
    w = abs(fr) * Fraction(1, 10 ** 40) + Fraction(1, 10 ** 60)
    return fr - w, fr + w


def threshold_lemmas(cond):
    """Add (as axioms of the atom) the monotonicity lemma for every  a*atom + c0 {<=,<,==} 0  inside cond."""
    for node in tm.walk([cond]):
        if node.op not in ("le0", "lt0", "eq0"):
            continue
        c0, items = tm.linear_form(node.args[0])
        kpow = 1
        if len(items) == 1 and items[0][1].op == "app":
            a, at = items[0]
        else:
            # a rational function of a single exp/log atom whose numerator is linear in it (tanh, sigmoid, 1/exp ...)
            from . import poly

            if len(tm.walk([node])) > 80:
                continue
            try:
                r = poly.Expander().rat(node.args[0]).cancel()
            except (poly.TooBig, RecursionError, ZeroDivisionError):
                continue
            monos = list(r.num.keys())
            aids = {m_[0][0] for m_ in monos if m_}
            pows = {m_[0][1] for m_ in monos if m_}
            if len(aids) != 1 or len(pows) != 1 or any(len(m_) > 1 for m_ in monos):
                continue
            (aid,) = aids
            (kpow,) = pows
            at = poly._ATOMS[aid]
            if kpow != 1 and not (at.op == "app" and at.args[0] == "exp"):
                continue
            a, c0 = Fraction(r.num[((aid, kpow),)]), Fraction(r.num.get((), 0))
        if at.op != "app" or at.args[0] not in ("exp", "log") or a == 0:
            continue
        c = -c0 / a
        f, u = at.args[0], at.args[1]
        if f == "exp" and c <= 0:
            continue
        if f == "log" and abs(c) > 200:
            continue
        key = ("thr", at, c, kpow)
        if key in REG.memo:
            continue
        REG.memo[key] = True
        lo, hi = _dec_enclosure("log" if f == "exp" else "exp", c)
        L = tm.var("thr!%d" % len([k for k in REG.memo if isinstance(k, tuple) and k and k[0] == "thr"]), "R")
        cc = tm.const(c)
        REG.add_axiom(at, tm.and_(tm.lt(tm.const(lo), L), tm.lt(L, tm.const(hi))))
        for rel in (tm.le, tm.lt):
            p, q = rel(tm.power(at, kpow), cc), rel(tm.scale(Fraction(kpow), u), L)
            REG.add_axiom(at, tm.and_(tm.or_(tm.not_(p), q), tm.or_(tm.not_(q), p)))
