"""Hash-consed term language for the symbolic tensor engine.

Sorts: 'R' (real), 'I' (int), 'B' (bool).  Real/int arithmetic is kept in a light normal form

    add :  c0 + sum_i c_i * t_i      (t_i neither constant nor add)
    mul :  prod_i b_i ** e_i         (b_i neither constant nor mul, e_i non-zero ints)

so that structural identity (`a is b`) decides syntactic equality after trivial simplification and a
linear-combination view (`linear_form`) is available for the exp/log abstraction.  No distribution of
products over sums is performed.

Everything is emitted as SMT-LIB2 by `smt.py`; `evaluate` gives the concrete (Fraction / float) meaning
used by the differential self-test and by replays.
"""
from fractions import Fraction
import math

_TABLE = {}
_COUNTER = [0]


class T:
    __slots__ = ("op", "args", "sort", "id", "__weakref__")

    def __repr__(self):
        return pretty(self)

    # terms are interned: identity is structural equality
    def __hash__(self):
        return self.id

    def __eq__(self, other):
        return self is other

    def __reduce__(self):
        return (_rebuild, (self.op, self.args, self.sort))


def _rebuild(op, args, sort):
    return _mk(op, args, sort)


def _mk(op, args, sort):
    key = (op, args, sort)
    t = _TABLE.get(key)
    if t is None:
        t = T()
        t.op = op
        t.args = args
        t.sort = sort
        _COUNTER[0] += 1
        t.id = _COUNTER[0]
        _TABLE[key] = t
    return t


# ----------------------------------------------------------------------------------------------
# float -> rational reading


def simplest_between(lo, hi):
    """Simplest fraction (smallest denominator) in the closed interval [lo, hi] (Stern-Brocot)."""
    lo, hi = Fraction(lo), Fraction(hi)
    if lo > hi:
        lo, hi = hi, lo
    if lo <= 0 <= hi:
        return Fraction(0)
    if hi < 0:
        return -simplest_between(-hi, -lo)
    # 0 < lo <= hi
    fl = lo.numerator // lo.denominator
    if Fraction(fl) == lo:
        return Fraction(fl)
    if fl + 1 <= hi:
        return Fraction(fl + 1)
    rest = simplest_between(1 / (hi - fl), 1 / (lo - fl))
    return fl + 1 / rest


def read_float(f, bits=53):
    """A concrete float is read as the simplest rational that rounds to it at its precision.

    So the literal 1e-3 is 1/1000, 1.0/3 is 1/3 and float32 linspace(0,1,4)[1] is 1/3: constants are
    interpreted as the exact-arithmetic numbers the source text means (DESIGN 3.1)."""
    if isinstance(f, Fraction):
        return f
    if isinstance(f, bool):
        return Fraction(int(f))
    if isinstance(f, int):
        return Fraction(f)
    f = float(f)
    if f != f or f in (math.inf, -math.inf):
        raise ValueError("non-finite constant %r" % (f,))
    if f == 0.0:
        return Fraction(0)
    if f == int(f) and abs(f) < 2 ** 53:
        return Fraction(int(f))
    m, e = math.frexp(f)  # f = m * 2**e, 0.5 <= |m| < 1
    half_ulp = Fraction(2) ** (e - bits - 1)
    ex = Fraction(f)
    # stay strictly inside the rounding interval
    r = simplest_between(ex - half_ulp * Fraction(9, 10), ex + half_ulp * Fraction(9, 10))
    return r


# ----------------------------------------------------------------------------------------------
# constructors

def const(v, sort="R"):
    if sort == "B":
        return TRUE if v else FALSE
    if not isinstance(v, Fraction):
        v = read_float(v)
    if sort == "I" and v.denominator != 1:
        raise ValueError("non-integer int constant")
    return _mk("const", (v,), sort)


TRUE = _mk("true", (), "B")
FALSE = _mk("false", (), "B")


def var(name, sort="R"):
    return _mk("var", (name,), sort)


def is_const(t):
    return t.op == "const"


def cval(t):
    return t.args[0]


ZERO = const(Fraction(0))
ONE = const(Fraction(1))
IZERO = const(Fraction(0), "I")
IONE = const(Fraction(1), "I")


def _num_sort(*ts):
    return "R" if any(t.sort == "R" for t in ts) else "I"


def _split_coeff(t):
    """t == c * base with base not a constant-scaled term."""
    if t.op == "const":
        return t.args[0], None
    if t.op == "add":
        c0, items = t.args
        if c0 == 0 and len(items) == 1:
            return items[0][0], items[0][1]
    return Fraction(1), t


def add(*ts):
    sort = _num_sort(*ts) if ts else "R"
    c0 = Fraction(0)
    acc = {}
    order = []
    for t in ts:
        if t.op == "const":
            c0 += t.args[0]
        elif t.op == "add":
            c0 += t.args[0]
            for c, b in t.args[1]:
                if b in acc:
                    acc[b] += c
                else:
                    acc[b] = c
                    order.append(b)
        else:
            if t in acc:
                acc[t] += 1
            else:
                acc[t] = Fraction(1)
                order.append(t)
    items = [(acc[b], b) for b in order if acc[b] != 0]
    if not items:
        return const(c0, sort)
    items.sort(key=lambda cb: cb[1].id)
    if c0 == 0 and len(items) == 1 and items[0][0] == 1:
        return items[0][1]
    return _mk("add", (c0, tuple(items)), sort)


def scale(c, t):
    c = c if isinstance(c, Fraction) else read_float(c)
    if c == 0:
        return const(Fraction(0), t.sort)
    if c == 1:
        return t
    if t.op == "const":
        return const(c * t.args[0], t.sort if c.denominator == 1 else "R")
    sort = t.sort if c.denominator == 1 else "R"
    if t.op == "add":
        c0 = c * t.args[0]
        items = tuple((c * k, b) for k, b in t.args[1])
        if c0 == 0 and len(items) == 1 and items[0][0] == 1:
            return items[0][1]
        return _mk("add", (c0, items), sort)
    return _mk("add", (Fraction(0), ((c, t),)), sort)


def neg(t):
    return scale(Fraction(-1), t)


def sub(a, b):
    return add(a, neg(b))


def mul(*ts):
    sort = _num_sort(*ts) if ts else "R"
    coeff = Fraction(1)
    acc = {}
    order = []

    def put(b, e):
        if b in acc:
            acc[b] += e
        else:
            acc[b] = e
            order.append(b)

    for t in ts:
        c, b = _split_coeff(t)
        coeff *= c
        if coeff == 0:
            return const(Fraction(0), sort)
        if b is None:
            continue
        if b.op == "mul":
            for bb, e in b.args:
                put(bb, e)
        else:
            put(b, 1)
    items = [(b, acc[b]) for b in order if acc[b] != 0]
    if not items:
        return const(coeff, sort if coeff.denominator == 1 else "R")
    items.sort(key=lambda be: be[0].id)
    if len(items) == 1 and items[0][1] == 1:
        m = items[0][0]
    else:
        if any(e < 0 for _, e in items):
            sort = "R"
        m = _mk("mul", tuple(items), sort)
    return scale(coeff, m)


def power(t, n):
    n = int(n)
    if n == 0:
        return const(Fraction(1), t.sort)
    if n == 1:
        return t
    c, b = _split_coeff(t)
    if b is None:
        if c == 0 and n < 0:
            raise ZeroDivisionError("0 ** negative")
        return const(c ** n, "R" if n < 0 else t.sort)
    sort = "R" if n < 0 else t.sort
    if b.op == "mul":
        m = _mk("mul", tuple((bb, e * n) for bb, e in b.args), sort)
    else:
        m = _mk("mul", ((b, n),), sort)
    if c == 1:
        return m
    return scale(c ** n, m)


def div(a, b):
    return mul(a, power(b, -1))


def ite(c, a, b):
    if c is TRUE:
        return a
    if c is FALSE:
        return b
    if a is b:
        return a
    if a.sort == "B":
        return or_(and_(c, a), and_(not_(c), b))
    sort = _num_sort(a, b)
    if sort == "R":
        a, b = to_real(a), to_real(b)
        if a is b:
            return a
    if c.op == "not":
        c, a, b = c.args[0], b, a
    return _mk("ite", (c, a, b), sort)


def app(fname, args, sort="R"):
    return _mk("app", (fname,) + tuple(args), sort)


# --- booleans ---------------------------------------------------------------------------------

def _norm_rel(t):
    """Normalise t (in `t rel 0`) by a positive constant so that syntactically proportional
    relations coincide."""
    if t.op == "add":
        c0, items = t.args
        lead = abs(items[0][0])
        if lead != 1:
            t = scale(1 / lead, t)
    return t


def le0(t):
    if t.op == "const":
        return TRUE if t.args[0] <= 0 else FALSE
    return _mk("le0", (_norm_rel(t),), "B")


def lt0(t):
    if t.op == "const":
        return TRUE if t.args[0] < 0 else FALSE
    return _mk("lt0", (_norm_rel(t),), "B")


def eq0(t):
    if t.op == "const":
        return TRUE if t.args[0] == 0 else FALSE
    t = _norm_rel(t)
    # orient sign canonically
    if t.op == "add" and t.args[1][0][0] < 0:
        t = neg(t)
    return _mk("eq0", (t,), "B")


def le(a, b):
    return le0(sub(a, b))


def lt(a, b):
    return lt0(sub(a, b))


def ge(a, b):
    return le0(sub(b, a))


def gt(a, b):
    return lt0(sub(b, a))


def eq(a, b):
    if a.sort == "B":
        return or_(and_(a, b), and_(not_(a), not_(b)))
    return eq0(sub(a, b))


def ne(a, b):
    return not_(eq(a, b))


def not_(c):
    if c is TRUE:
        return FALSE
    if c is FALSE:
        return TRUE
    if c.op == "not":
        return c.args[0]
    if c.op == "le0":
        return lt0(neg(c.args[0]))
    if c.op == "lt0":
        return le0(neg(c.args[0]))
    return _mk("not", (c,), "B")


def and_(*cs):
    out = []
    seen = set()
    for c in cs:
        if c is TRUE:
            continue
        if c is FALSE:
            return FALSE
        parts = c.args if c.op == "and" else (c,)
        for p in parts:
            if p not in seen:
                seen.add(p)
                out.append(p)
    for p in out:
        if not_(p) in seen:
            return FALSE
    if not out:
        return TRUE
    if len(out) == 1:
        return out[0]
    return _mk("and", tuple(out), "B")


def or_(*cs):
    out = []
    seen = set()
    for c in cs:
        if c is FALSE:
            continue
        if c is TRUE:
            return TRUE
        parts = c.args if c.op == "or" else (c,)
        for p in parts:
            if p not in seen:
                seen.add(p)
                out.append(p)
    for p in out:
        if not_(p) in seen:
            return TRUE
    if not out:
        return FALSE
    if len(out) == 1:
        return out[0]
    return _mk("or", tuple(out), "B")


def implies(a, b):
    return or_(not_(a), b)


def bvar(name):
    return _mk("var", (name,), "B")


# --- integers ---------------------------------------------------------------------------------

def to_real(t):
    if t.sort == "R":
        return t
    if t.op == "const":
        return const(t.args[0], "R")
    return _mk("to_real", (t,), "R")


def floor(t):
    """floor of a real term as an int term."""
    if t.sort == "I":
        return t
    if t.op == "const":
        return const(Fraction(math.floor(t.args[0])), "I")
    return _mk("floor", (t,), "I")


def imod(t, k):
    k = int(k)
    if t.op == "const":
        return const(Fraction(int(t.args[0]) % k), "I")
    return _mk("imod", (t, k), "I")


def idiv(t, k):
    k = int(k)
    if t.op == "const":
        return const(Fraction(int(t.args[0]) // k), "I")
    return _mk("idiv", (t, k), "I")


# ----------------------------------------------------------------------------------------------
# traversal helpers

def children(t):
    op = t.op
    if op in ("const", "var", "true", "false"):
        return ()
    if op == "add":
        return tuple(b for _, b in t.args[1])
    if op == "mul":
        return tuple(b for b, _ in t.args)
    if op == "app":
        return tuple(a for a in t.args[1:] if isinstance(a, T))
    if op in ("imod", "idiv"):
        return (t.args[0],)
    if op in ("fconst", "fminpos"):
        return ()
    return tuple(a for a in t.args if isinstance(a, T))


def walk(roots):
    """All distinct sub-terms of the given roots, children before parents."""
    seen = set()
    out = []
    stack = [(r, False) for r in roots]
    while stack:
        t, done = stack.pop()
        if done:
            out.append(t)
            continue
        if t in seen:
            continue
        seen.add(t)
        stack.append((t, True))
        for c in children(t):
            if c not in seen:
                stack.append((c, False))
    return out


def free_vars(*roots):
    return [t for t in walk(roots) if t.op == "var"]


def atoms(*roots):
    return [t for t in walk(roots) if t.op == "app"]


def size(*roots):
    return len(walk(roots))


def subst(t, mapping, _memo=None):
    """Replace sub-terms according to `mapping` (term -> term), rebuilding through the smart
    constructors."""
    memo = {} if _memo is None else _memo

    def go(u):
        if u in mapping:
            return mapping[u]
        r = memo.get(u)
        if r is not None:
            return r
        op = u.op
        if op in ("const", "var", "true", "false"):
            r = u
        elif op == "add":
            c0, items = u.args
            r = add(const(c0, u.sort), *[scale(c, go(b)) for c, b in items])
        elif op == "mul":
            r = mul(*[power(go(b), e) for b, e in u.args])
        elif op == "ite":
            r = ite(go(u.args[0]), go(u.args[1]), go(u.args[2]))
        elif op == "app":
            r = app(u.args[0], [go(a) if isinstance(a, T) else a for a in u.args[1:]], u.sort)
        elif op == "le0":
            r = le0(go(u.args[0]))
        elif op == "lt0":
            r = lt0(go(u.args[0]))
        elif op == "eq0":
            r = eq0(go(u.args[0]))
        elif op == "not":
            r = not_(go(u.args[0]))
        elif op == "and":
            r = and_(*[go(a) for a in u.args])
        elif op == "or":
            r = or_(*[go(a) for a in u.args])
        elif op == "to_real":
            r = to_real(go(u.args[0]))
        elif op == "floor":
            r = floor(go(u.args[0]))
        elif op == "imod":
            r = imod(go(u.args[0]), u.args[1])
        elif op == "idiv":
            r = idiv(go(u.args[0]), u.args[1])
        else:
            raise ValueError(op)
        memo[u] = r
        return r

    return go(t)


def linear_form(t):
    """t == c0 + sum c_i * a_i with a_i non-add, non-constant terms.  Returns (c0, [(c_i, a_i)])."""
    if t.op == "const":
        return t.args[0], []
    if t.op == "add":
        return t.args[0], list(t.args[1])
    return Fraction(0), [(Fraction(1), t)]


# ----------------------------------------------------------------------------------------------
# pretty printer (for evidence samples / replay files; not parsed back)

def pretty(t, depth=0):
    op = t.op
    if depth > 40:
        return "..."
    if op == "const":
        v = t.args[0]
        return str(v.numerator) if v.denominator == 1 else "%d/%d" % (v.numerator, v.denominator)
    if op == "var":
        return t.args[0]
    if op == "true":
        return "true"
    if op == "false":
        return "false"
    p = lambda u: pretty(u, depth + 1)
    if op == "add":
        c0, items = t.args
        parts = []
        if c0 != 0:
            parts.append(pretty(const(c0), depth + 1))
        for c, b in items:
            if c == 1:
                parts.append(p(b))
            elif c == -1:
                parts.append("-" + p(b))
            else:
                parts.append("%s*%s" % (pretty(const(c)), p(b)))
        return "(" + " + ".join(parts) + ")"
    if op == "mul":
        parts = []
        for b, e in t.args:
            parts.append(p(b) if e == 1 else "%s^%d" % (p(b), e))
        return "(" + "*".join(parts) + ")"
    if op == "ite":
        return "ite(%s, %s, %s)" % (p(t.args[0]), p(t.args[1]), p(t.args[2]))
    if op == "app":
        return "%s(%s)" % (t.args[0], ", ".join(p(a) if isinstance(a, T) else str(a) for a in t.args[1:]))
    if op == "le0":
        return "%s <= 0" % p(t.args[0])
    if op == "lt0":
        return "%s < 0" % p(t.args[0])
    if op == "eq0":
        return "%s == 0" % p(t.args[0])
    if op == "not":
        return "!(%s)" % p(t.args[0])
    if op == "and":
        return "(" + " & ".join(p(a) for a in t.args) + ")"
    if op == "or":
        return "(" + " | ".join(p(a) for a in t.args) + ")"
    if op in ("to_real", "floor"):
        return "%s(%s)" % (op, p(t.args[0]))
    if op in ("imod", "idiv"):
        return "%s(%s, %d)" % (op, p(t.args[0]), t.args[1])
    if op == "fconst":
        return repr(t.args[1]) + ("f" if t.sort == "F32" else "d")
    if op == "fminpos":
        return "minpos"
    if op in ("fadd", "fsub", "fmul", "fdiv"):
        return "(%s %s.%s %s)" % (p(t.args[0]), op[1:], t.args[2], p(t.args[1]))
    if op == "fneg":
        return "-%s" % p(t.args[0])
    if op == "fcmp":
        return "(%s %s %s)" % (p(t.args[1]), t.args[0], p(t.args[2]))
    return "<%s>" % op


# ----------------------------------------------------------------------------------------------
# concrete evaluation

_FLOAT_FUNCS = {
    "exp": math.exp,
    "log": math.log,
    "sqrt": math.sqrt,
    "atan": math.atan,
    "tan": math.tan,
    "cos": math.cos,
    "sin": math.sin,
    "softplus": lambda u: math.log1p(math.exp(-abs(u))) + max(u, 0.0),
}


def evaluate(t, env, funcs=None, memo=None):
    """Evaluate with floats.  env: var-term or name -> number;  funcs: app name -> python callable
    (uninterpreted functions must be supplied)."""
    memo = {} if memo is None else memo
    funcs = funcs or {}

    def go(u):
        if u in memo:
            return memo[u]
        op = u.op
        if op == "const":
            v = u.args[0]
            r = int(v) if u.sort == "I" else float(v)
        elif op == "var":
            if u in env:
                r = env[u]
            elif u.args[0] in env:
                r = env[u.args[0]]
            else:
                raise KeyError("no value for %s" % u.args[0])
        elif op == "true":
            r = True
        elif op == "false":
            r = False
        elif op == "add":
            c0, items = u.args
            r = float(c0) if u.sort == "R" else int(c0)
            for c, b in items:
                r = r + (float(c) if u.sort == "R" else int(c)) * go(b)
        elif op == "mul":
            r = 1.0 if u.sort == "R" else 1
            for b, e in u.args:
                r = r * go(b) ** e
        elif op == "ite":
            r = go(u.args[1]) if go(u.args[0]) else go(u.args[2])
        elif op == "app":
            name = u.args[0]
            vals = [go(a) if isinstance(a, T) else a for a in u.args[1:]]
            if u in env:
                r = env[u]
            elif name in funcs:
                r = funcs[name](*vals)
            elif name in _FLOAT_FUNCS:
                r = _FLOAT_FUNCS[name](*vals)
            else:
                raise KeyError("no interpretation for %s" % name)
        elif op == "le0":
            r = go(u.args[0]) <= 0
        elif op == "lt0":
            r = go(u.args[0]) < 0
        elif op == "eq0":
            r = go(u.args[0]) == 0
        elif op == "not":
            r = not go(u.args[0])
        elif op == "and":
            r = all(go(a) for a in u.args)
        elif op == "or":
            r = any(go(a) for a in u.args)
        elif op == "to_real":
            r = float(go(u.args[0]))
        elif op == "floor":
            r = math.floor(go(u.args[0]))
        elif op == "imod":
            r = go(u.args[0]) % u.args[1]
        elif op == "idiv":
            r = go(u.args[0]) // u.args[1]
        else:
            raise ValueError(op)
        memo[u] = r
        return r

    return go(t)


# ----------------------------------------------------------------------------------------------
# IEEE floating point terms (QF_FP), used only by the bin-search kernel checks (DESIGN 3.4)

def fvar(name, prec="F32"):
    return _mk("var", (name,), prec)


def fconst(value, prec="F32"):
    import struct

    if prec == "F32":
        bits = struct.unpack(">I", struct.pack(">f", float(value)))[0]
        return _mk("fconst", (bits, float(struct.unpack(">f", struct.pack(">f", float(value)))[0])), prec)
    bits = struct.unpack(">Q", struct.pack(">d", float(value)))[0]
    return _mk("fconst", (bits, float(value)), prec)


def fop(op, a, b, rm="RNE"):
    """op in add, sub, mul, div"""
    return _mk("f" + op, (a, b, rm), a.sort)


def fneg(a):
    return _mk("fneg", (a,), a.sort)


def fcmp(op, a, b):
    """op in leq, lt, geq, gt, eq"""
    return _mk("fcmp", (op, a, b), "B")


def fnextup(a):
    """next representable value above a (finite a): a + smallest positive, rounded toward +oo."""
    tiny = _mk("fminpos", (), a.sort)
    return _mk("fadd", (a, tiny, "RTP"), a.sort)


def is_fp(t):
    return t.sort in ("F32", "F64")
