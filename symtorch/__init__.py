"""symtorch: run the unmodified nflows source on symbolic tensors (see /verif/DESIGN.md section 2)."""
