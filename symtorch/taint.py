"""Taint domain: an element records, as Boolean *terms*, which inputs it may depend on and whether it is
definitely zero.  Masks may be symbolic (random MADE degrees), so "depends on input j" is a formula over the
degree variables that z3 decides for every draw at once (DESIGN C06)."""
import numpy as np

from . import term as tm
from .scalars import S, _is_num, lift_num
from .explore import NotModelled


class TS:
    """dep: tuple of Bool terms (one per tracked input); zero: Bool term (definitely zero)."""

    __slots__ = ("dep", "zero")
    sort = "R"
    d = None

    def __init__(self, dep, zero=tm.FALSE):
        self.dep = tuple(dep)
        self.zero = zero

    @staticmethod
    def arbitrary(n):
        """a value that depends on no tracked input and is not known to be zero (a weight, a bias, context)."""
        return TS((tm.FALSE,) * n, tm.FALSE)

    @staticmethod
    def input(n, j):
        return TS(tuple(tm.TRUE if k == j else tm.FALSE for k in range(n)), tm.FALSE)

    def _lift(self, o):
        if isinstance(o, TS):
            return o
        if _is_num(o):
            o = lift_num(o)
        if isinstance(o, S):
            t = o.t
            if t.sort == "B":
                z = tm.not_(t)
            elif t.op == "const":
                z = tm.TRUE if t.args[0] == 0 else tm.FALSE
            elif t.op == "ite" and t.args[1].op == "const" and t.args[2].op == "const":
                a, b = t.args[1].args[0], t.args[2].args[0]
                z = tm.ite(t.args[0], tm.TRUE if a == 0 else tm.FALSE, tm.TRUE if b == 0 else tm.FALSE)
            elif t.op == "to_real" and t.args[0].op == "ite":
                return self._lift(S(t.args[0]))
            else:
                z = tm.FALSE
            return TS((tm.FALSE,) * len(self.dep), z)
        return None

    def real(self):
        return self

    def num(self):
        return self

    def nodual(self):
        return self

    def is_const(self):
        return False

    def __add__(self, o):
        o = self._lift(o)
        if o is None:
            return NotImplemented
        return TS(tuple(tm.or_(a, b) for a, b in zip(self.dep, o.dep)), tm.and_(self.zero, o.zero))

    __radd__ = __add__
    __sub__ = __add__
    __rsub__ = __add__

    def __neg__(self):
        return self

    def __mul__(self, o):
        o = self._lift(o)
        if o is None:
            return NotImplemented
        z = tm.or_(self.zero, o.zero)
        nz = tm.not_(z)
        return TS(tuple(tm.and_(tm.or_(a, b), nz) for a, b in zip(self.dep, o.dep)), z)

    __rmul__ = __mul__

    def __truediv__(self, o):
        o = self._lift(o)
        if o is None:
            return NotImplemented
        return TS(tuple(tm.and_(tm.or_(a, b), tm.not_(self.zero)) for a, b in zip(self.dep, o.dep)), self.zero)

    def __rtruediv__(self, o):
        o = self._lift(o)
        if o is None:
            return NotImplemented
        return o.__truediv__(self)

    def __pow__(self, e):
        return self.unary()

    def unary(self):
        """any element-wise function: keeps the dependencies, forgets zero-ness."""
        return TS(self.dep, tm.FALSE)

    def _cmp(self, o):
        raise NotModelled("comparison on tainted values")

    __lt__ = __le__ = __gt__ = __ge__ = _cmp

    def __repr__(self):
        return "TS(%s)" % ",".join(tm.pretty(d) for d in self.dep)
