"""Harness-side environment stubs (every one used is listed in the evidence of the check that uses it).

* creation functions that never see a `Sym` argument (`torch.as_tensor(sym)` is the exception: it is
  called *with* one but does not dispatch) are patched for the duration of a harness run;
* random sources return fresh symbols constrained by their documented range only;
* user-supplied networks are uninterpreted functions of the inputs they actually receive.
"""
import contextlib
from fractions import Fraction as _F0
from fractions import Fraction

import numpy as np
import torch
from torch import nn

from . import term as tm
from . import scalars as sc
from .scalars import S
from .tensor import Sym, arr, lift, _obj, _full
from .explore import NotModelled

_REAL = {}
_MISSING = object()


def _save(mod, name):
    _REAL.setdefault((mod, name), getattr(mod, name))
    return _REAL[(mod, name)]


def fresh_tensor(prefix, shape, lo=None, hi=None, sort="R", free=False, lo_strict=True, hi_strict=True):
    R = sc.reg()
    out = np.empty(tuple(shape), dtype=object)
    base = R.fresh_name(prefix)
    for idx in np.ndindex(out.shape):
        nm = base if idx == () else "%s_%s" % (base, "_".join(map(str, idx)))
        v = R.declare(nm, sort=sort, lo=lo, hi=hi, lo_strict=lo_strict, hi_strict=hi_strict)
        if free:
            if not hasattr(R, "free"):
                R.free = set()
            R.free.add(v)
        out[idx] = S(v)
    return Sym(out)


def named_tensor(name, shape, lo=None, hi=None, sort="R", free=False, seed_base=None, lo_strict=True, hi_strict=True):
    """Symbolic tensor with stable element names name_i_j; free=True marks the elements as parameters that
    occur nowhere else (enables the softmax/softplus variable shortcut); seed_base attaches dual seeds."""
    R = sc.reg()
    out = np.empty(tuple(shape), dtype=object)
    k = 0
    for idx in np.ndindex(out.shape):
        nm = name if idx == () else "%s_%s" % (name, "_".join(map(str, idx)))
        v = R.declare(nm, sort=sort, lo=lo, hi=hi, lo_strict=lo_strict, hi_strict=hi_strict)
        if free:
            if not hasattr(R, "free"):
                R.free = set()
            R.free.add(v)
        s = S(v)
        if seed_base is not None:
            s = S(v, {seed_base + k: tm.ONE})
        out[idx] = s
        k += 1
    return Sym(out)


def scalar(name, lo=None, hi=None, sort="R", **kw):
    return named_tensor(name, (), lo=lo, hi=hi, sort=sort, **kw)


def _shape_from(args):
    if len(args) == 1 and isinstance(args[0], (tuple, list, torch.Size)):
        return tuple(int(x) for x in args[0])
    return tuple(int(x) for x in args)


@contextlib.contextmanager
def patched(*triples):
    saved = []
    try:
        for mod, name, new in triples:
            saved.append((mod, name, getattr(mod, name, _MISSING)))
            setattr(mod, name, new)
        yield
    finally:
        for mod, name, old in reversed(saved):
            if old is _MISSING:
                delattr(mod, name)
            else:
                setattr(mod, name, old)


@contextlib.contextmanager
def real_torch():
    """temporarily restore the real torch functions (replays run on real tensors inside a patched region)."""
    saved = []
    try:
        for (mod, name), real in _REAL.items():
            saved.append((mod, name, getattr(mod, name)))
            setattr(mod, name, real)
        yield
    finally:
        for mod, name, cur in saved:
            setattr(mod, name, cur)


def torch_patches(random=True, exact_linspace=True):
    """Patches applied while the code under analysis runs."""
    real_as_tensor = _save(torch, "as_tensor")
    real_linspace = _save(torch, "linspace")
    real_randn = _save(torch, "randn")
    real_rand = _save(torch, "rand")
    real_tensor = _save(torch, "tensor")

    def as_tensor(data, *a, **k):
        if isinstance(data, Sym):
            return data
        if isinstance(data, (list, tuple)) and any(isinstance(e, (Sym, S)) for e in data):
            return lift(data)
        return real_as_tensor(data, *a, **k)

    def tensor(data, *a, **k):
        if isinstance(data, Sym):
            return data.clone()
        if isinstance(data, S):
            return Sym(_obj(data))
        return real_tensor(data, *a, **k)

    def linspace(start, end, steps, **k):
        if all(isinstance(x, (int, float)) for x in (start, end)):
            n = int(steps)
            s, e = tm.read_float(start), tm.read_float(end)
            vals = [s + (e - s) * Fraction(i, n - 1) for i in range(n)] if n > 1 else [s]
            return Sym(_obj(np.array([S(tm.const(v)) for v in vals], dtype=object)))
        return real_linspace(start, end, steps, **k)

    def randn(*size, **k):
        return fresh_tensor("randn", _shape_from(size))

    def rand(*size, **k):
        return fresh_tensor("rand", _shape_from(size), lo=0, hi=1, lo_strict=False)

    ps = [(torch, "as_tensor", as_tensor), (torch, "tensor", tensor)]
    if exact_linspace:
        ps.append((torch, "linspace", linspace))
    if random:
        ps += [(torch, "randn", randn), (torch, "rand", rand)]
    return patched(*ps)


# ---- uninterpreted conditioner / sub-network stubs -------------------------------------------------

class UFNet(nn.Module):
    """A stand-in for a user-supplied network: output element j is the uninterpreted function
    `name_j(inputs it actually received)`; duals are sum_i g_ji(args) * d(arg_i) with g uninterpreted, so the
    stub differentiates with respect to whatever it was actually handed (DESIGN 2.4).

    Rows of the batch are mapped independently (that is the contract a conditioner has in eval mode)."""

    def __init__(self, name, out_shape_fn, in_features=None, hidden_features=None):
        super().__init__()
        self._name = name
        self._out_shape_fn = out_shape_fn
        self.calls = []
        if hidden_features is not None:
            self.hidden_features = hidden_features

    def forward(self, inputs, context=None):
        R = sc.reg()
        x = lift(inputs)
        n = x.a.shape[0]
        ctx = None if context is None else lift(context)
        out_shape = tuple(self._out_shape_fn(tuple(x.a.shape[1:])))
        out = np.empty((n,) + out_shape, dtype=object)
        self.calls.append((x, ctx))
        for r in range(n):
            args = [s.real() for s in x.a[r].reshape(-1)]
            if ctx is not None:
                args += [s.real() for s in ctx.a[r].reshape(-1)]
            targs = [s.t for s in args]
            for j, idx in enumerate(np.ndindex(out_shape)):
                fn = "%s_%d" % (self._name, j)
                R.declare_uf(fn)
                val = tm.app(fn, targs)
                d = None
                if any(s.d for s in args):
                    pairs = []
                    for i, s in enumerate(args):
                        if s.d:
                            gn = "%s_d%d_%d" % (self._name, j, i)
                            R.declare_uf(gn)
                            pairs.append((tm.app(gn, targs), s.d))
                    d = sc._dual_lin(pairs)
                out[(r,) + idx] = S(val, d)
        return Sym(out)


class NpProxy:
    """stand-in for the `np` name inside a module: np.pi is a symbolic constant (3.14159 < pi < 3.1416) and
    np.log / exp / sqrt / tanh accept symbolic tensors; everything else is numpy's."""

    def __init__(self):
        import numpy as _np

        self._np = _np
        R = sc.reg()
        v = R.declare("pi", lo=Fraction(314159, 100000), hi=Fraction(31416, 10000))
        R.pi = v
        R.sign[v] = "+"
        self.pi = Sym(_obj(S(v)))

    def __getattr__(self, name):
        return getattr(self._np, name)

    def _f(self, name, x):
        if isinstance(x, Sym):
            return getattr(x, name)()
        if isinstance(x, S):
            return getattr(Sym(_obj(x)), name)()
        return getattr(self._np, name)(x)

    def log(self, x):
        return self._f("log", x)

    def exp(self, x):
        return self._f("exp", x)

    def sqrt(self, x):
        return self._f("sqrt", x)

    def tanh(self, x):
        return self._f("tanh", x)
