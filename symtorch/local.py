"""Sound reformulations that make scalar piecewise queries tractable for nlsat.

For a claim  forall x. path(x) => goal(x)  where the path condition bounds x by L <= x (<)<= U with x-free
L, U, the change of variable x = L + theta*(U-L), theta in [0,1] is exact (DESIGN section 4, "one scalar
input per query").  On top of it, every maximal theta-free sub-term can be replaced by a fresh variable
that keeps only its sign: a generalisation, so `unsat` transfers to the original claim, while a `sat` is
only a reason to fall back to the exact formulation.
"""
from fractions import Fraction

from . import term as tm
from . import scalars as sc


def depends(t, x, memo=None):
    memo = {} if memo is None else memo
    r = memo.get(t)
    if r is not None:
        return r
    if t is x:
        r = True
    else:
        r = any(depends(c, x, memo) for c in tm.children(t))
    memo[t] = r
    return r


def affine_in(t, x, memo):
    """(alpha, beta) with t == alpha*x + beta and alpha, beta x-free, or None."""
    if not depends(t, x, memo):
        return tm.ZERO, t
    if t is x:
        return tm.ONE, tm.ZERO
    if t.op == "add":
        c0, items = t.args
        al, be = [], [tm.const(c0)]
        for c, b in items:
            r = affine_in(b, x, memo)
            if r is None:
                return None
            al.append(tm.scale(c, r[0]))
            be.append(tm.scale(c, r[1]))
        return tm.add(*al), tm.add(*be)
    if t.op == "mul":
        dep = [(b, e) for b, e in t.args if depends(b, x, memo)]
        rest = [tm.power(b, e) for b, e in t.args if not depends(b, x, memo)]
        if len(dep) != 1 or dep[0][1] != 1:
            return None
        r = affine_in(dep[0][0], x, memo)
        if r is None:
            return None
        k = tm.mul(*rest) if rest else tm.ONE
        return tm.mul(r[0], k), tm.mul(r[1], k)
    return None


def x_bounds(conds, x):
    """Lower / upper bounds on x implied by individual conjuncts: ([(L, strict)], [(U, strict)])."""
    memo = {}
    lows, ups = [], []
    for c in conds:
        if c.op not in ("le0", "lt0"):
            continue
        r = affine_in(c.args[0], x, memo)
        if r is None:
            continue
        al, be = r
        s = sc.sign_of(al)
        if s not in ("+", "-"):
            continue
        bound = tm.neg(tm.div(be, al))
        strict = c.op == "lt0"
        if s == "+":
            ups.append((bound, strict))  # al*x + be <= 0, al>0  =>  x <= -be/al
        else:
            lows.append((bound, strict))
    return lows, ups


def _factors(b):
    return dict(b.args) if b.op == "mul" else {b: 1}


def _common_factor(t):
    """For an add node c1*m1 + ... + cn*mn (no constant part, n >= 2) whose monomials share factors:
    (common monomial, remaining sum)."""
    c0, items = t.args
    if c0 != 0 or len(items) < 2:
        return None
    fs = [_factors(b) for _, b in items]
    common = {}
    for base, e in fs[0].items():
        if e <= 0:
            continue
        m = e
        for f in fs[1:]:
            m = min(m, f.get(base, 0))
        if m > 0:
            common[base] = m
    if not common:
        return None
    cm = tm.mul(*[tm.power(b, e) for b, e in common.items()])
    inv = tm.power(cm, -1)
    rest = tm.add(*[tm.scale(c, tm.mul(b, inv)) for c, b in items])
    return cm, rest


class Abstraction:
    def __init__(self, reg, theta, prefix="abs", mode="max", solver=None, conds=()):
        self.mode = mode
        self.solver = solver
        self.conds = list(conds)
        self.reg = reg
        self.theta = theta
        self.prefix = prefix
        self.map = {}
        self.facts = []
        self.memo_dep = {}
        self.memo = {}

    def _var_for(self, t):
        v = self.map.get(t)
        if v is None:
            neg_t = tm.neg(t)
            if neg_t in self.map:
                return tm.neg(self.map[neg_t])
            v = tm.var("%s!%d" % (self.prefix, len(self.map)))
            self.map[t] = v
            s = sc.sign_of(t)
            if s is None and self.solver is not None:
                s = self._solver_sign(t)
            z = tm.ZERO
            if s == "+":
                self.facts.append(tm.gt(v, z))
                self.reg.sign[v] = "+"
            elif s == "-":
                self.facts.append(tm.lt(v, z))
                self.reg.sign[v] = "-"
            elif s == "+0":
                self.facts.append(tm.ge(v, z))
            elif s == "-0":
                self.facts.append(tm.le(v, z))
            elif s == "0":
                return tm.ZERO
        return v

    def _solver_sign(self, t):
        from . import smt

        for cand, bad in (("+", tm.le0(t)), ("-", tm.le0(tm.neg(t)))):
            script, _, _ = smt.build_script(self.reg, self.conds + [bad], want_model=False, timeout_ms=3000)
            st, _, _ = self.solver.check(script, (), timeout_s=5)
            if st == "unsat":
                return cand
        return None

    def dep(self, t):
        return depends(t, self.theta, self.memo_dep)

    def _has_nested_add(self, t):
        for n in tm.walk([t]):
            if n is not t and n.op == "add":
                return True
        return False

    def go_leaf(self, t):
        """abstract only theta-free sums of leaf-level products; keep all other structure."""
        if t.op in ("const", "var", "true", "false"):
            return t
        r = self.memo.get(t)
        if r is not None:
            return r
        if t.op == "add" and not self.dep(t) and not self._has_nested_add(t) and _common_factor(t) is None:
            r = self._var_for(t)
        elif t.op == "add":
            cf = _common_factor(t)
            if cf is not None:
                common, rest = cf
                r = tm.mul(self.go_leaf(common), self.go_leaf(rest))
            else:
                c0, items = t.args
                r = tm.add(tm.const(c0), *[tm.scale(c, self.go_leaf(b)) for c, b in items])
        elif t.op == "mul":
            r = tm.mul(*[tm.power(self.go_leaf(b), e) for b, e in t.args])
        else:
            saved = self.go
            self.go = self.go_leaf
            try:
                r = self._rebuild(t)
            finally:
                self.go = saved
        self.memo[t] = r
        return r

    def go(self, t):
        if t.op == "const" or t is self.theta or t.op in ("true", "false"):
            return t
        r = self.memo.get(t)
        if r is not None:
            return r
        if not self.dep(t):
            r = self._var_for(t) if t.sort != "B" else t
        elif t.op == "add":
            c0, items = t.args
            free = [tm.scale(c, b) for c, b in items if not self.dep(b)]
            parts = [tm.scale(c, self.go(b)) for c, b in items if self.dep(b)]
            if free or c0 != 0:
                g = tm.add(tm.const(c0), *free)
                parts.append(g if g.op == "const" else self._var_for(g))
            r = tm.add(*parts)
        elif t.op == "mul":
            free = [tm.power(b, e) for b, e in t.args if not self.dep(b)]
            parts = [tm.power(self.go(b), e) for b, e in t.args if self.dep(b)]
            if free:
                g = tm.mul(*free)
                parts.append(g if g.op == "const" else self._var_for(g))
            r = tm.mul(*parts)
        else:
            r = tm.subst(t, {}, None) if False else self._rebuild(t)
        self.memo[t] = r
        return r

    def _rebuild(self, t):
        op = t.op
        g = self.go
        if op == "ite":
            return tm.ite(g(t.args[0]), g(t.args[1]), g(t.args[2]))
        if op == "le0":
            return tm.le0(g(t.args[0]))
        if op == "lt0":
            return tm.lt0(g(t.args[0]))
        if op == "eq0":
            return tm.eq0(g(t.args[0]))
        if op == "not":
            return tm.not_(g(t.args[0]))
        if op == "and":
            return tm.and_(*[g(a) for a in t.args])
        if op == "or":
            return tm.or_(*[g(a) for a in t.args])
        if op == "app":
            return tm.app(t.args[0], [g(a) if isinstance(a, tm.T) else a for a in t.args[1:]], t.sort)
        if op == "to_real":
            return tm.to_real(g(t.args[0]))
        return t


def pick_tightest(reg, solver, conds, cands, lower, timeout=5.0):
    """index of the candidate bound that is provably the tightest under the path condition (None if no
    candidate can be shown to dominate)."""
    from . import smt

    if len(cands) == 1:
        return 0
    uniq = []
    for c, s in cands:
        if all(c is not u for u, _ in uniq):
            uniq.append((c, s))
    order = list(range(len(cands)))[::-1]
    for i in order:
        ci = cands[i][0]
        ok = True
        for j in range(len(cands)):
            cj = cands[j][0]
            if cj is ci:
                continue
            bad = tm.lt(ci, cj) if lower else tm.gt(ci, cj)
            if bad is tm.FALSE:
                continue
            script, _, _ = smt.build_script(reg, list(conds) + [bad], want_model=False, timeout_ms=int(timeout * 1000))
            st, _, _ = solver.check(script, (), timeout_s=timeout + 2)
            if st != "unsat":
                ok = False
                break
        if ok:
            return i
    return None


def localize(reg, conds, goal, x, tag="th", solver=None):
    """Returns a list of (assumptions, goal) formulations, most abstract first, or [] when the path
    condition does not bound x on both sides."""
    lows, ups = x_bounds(conds, x)
    if not lows or not ups:
        return []
    il = iu = -1
    if solver is not None:
        il = pick_tightest(reg, solver, conds, lows, True)
        iu = pick_tightest(reg, solver, conds, ups, False)
        if il is None or iu is None:
            return []
    L, ls = lows[il]
    U, us = ups[iu]
    theta = reg.declare("%s!theta" % tag, lo=0, hi=1, lo_strict=False, hi_strict=False)
    xs = tm.add(L, tm.mul(theta, tm.sub(U, L)))
    mp = {x: xs}
    conds_s = [sc.subst(c, mp) for c in conds]
    goal_s = sc.subst(goal, mp)
    exact_theta = (conds_s, goal_s, True)
    # abstraction: drop the conjuncts that only bound x (they are implied by theta in [0,1] for the chosen
    # L, U or are redundant bounds), keep the rest.
    mdep = {}
    keep = []
    for c, cs in zip(conds, conds_s):
        if depends(c, x, mdep) and c.op in ("le0", "lt0") and affine_in(c.args[0], x, {}) is not None:
            continue
        keep.append(cs)
    width_pos = tm.gt(tm.sub(U, L), tm.ZERO) if (ls or us) else tm.ge(tm.sub(U, L), tm.ZERO)
    forms = []
    for mode in ("max", "leaf"):
        ab = Abstraction(reg, theta, prefix=tag + mode[0], mode=mode, solver=solver, conds=conds)
        f = ab.go if mode == "max" else ab.go_leaf
        goal_a = f(goal_s)
        keep_a = [f(c) for c in keep]
        forms.append((keep_a + [f(width_pos)] + ab.facts, goal_a))
    forms.append(exact_theta)
    return forms


# ----------------------------------------------------------------------------------------------
# affine re-parametrisation

def _single_var_affine(t):
    """(c0, c, v) if t is the add node c0 + c*v over one plain variable v."""
    if t.op != "add":
        return None
    c0, items = t.args
    if len(items) != 1:
        return None
    c, b = items[0]
    if b.op != "var" or b.sort != "R":
        return None
    return c0, c, b


def reparam(reg, terms, prefix="rp"):
    """Exact affine change of variables: every variable v that occurs as  c0 + c*v  (most frequent such
    sub-term) is replaced by (a - c0)/c with a fresh variable a, so that compound quantities such as
    `min_bin_width + (1 - K*min_bin_width) * softmax_k` become single variables.  Returns (mapping, axioms):
    the axioms of the replaced variables, translated, must accompany any query that uses the mapping."""
    count = {}
    for n in tm.walk(list(terms)):
        r = _single_var_affine(n)
        if r is None:
            continue
        c0, c, v = r
        if c0 == 0 and c == 1:
            continue
        count.setdefault(v, {})
        count[v][n] = count[v].get(n, 0) + 1
    # weight by number of parents: recount references
    refs = {}
    for n in tm.walk(list(terms)):
        for ch in tm.children(n):
            refs[ch] = refs.get(ch, 0) + 1
    mapping = {}
    axioms = []
    for v, cands in count.items():
        best = max(cands, key=lambda n: (refs.get(n, 0), -n.id))
        c0, c, _ = _single_var_affine(best)
        a = tm.var("%s!%s" % (prefix, v.args[0]))
        mapping[v] = tm.scale(1 / c, tm.sub(a, tm.const(c0)))
        s = sc.sign_of(best)
        if s is not None:
            reg.sign[a] = s
    for v in mapping:
        for ax in reg.var_axioms.get(v, []):
            axioms.append(ax)
    axioms = [sc.subst(ax, mapping) for ax in dict.fromkeys(axioms)]
    return mapping, axioms
