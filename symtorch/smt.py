"""SMT-LIB2 emission and solver processes.

Every query is a self-contained SMT-LIB2 script.  It is decided by a z3 child process (`z3-new -in`,
falling back to `z3 -in`) that is *killed* at the hard cap: z3's own soft timeout is not honoured inside
nlsat (DESIGN section 4).  The `(set-logic QF_NRA)`/`QF_UFNRA`/`QF_LIA`/... line selects the tactic; the
process is reused between queries with `(reset)`.
"""
from fractions import Fraction
import os
import re
import select
import shutil
import subprocess
import time

from . import term as tm
from .term import T

Z3_BIN = os.environ.get("VERIF_Z3") or shutil.which("z3-new") or shutil.which("z3")
Z3_OLD = shutil.which("z3")
CVC5_BIN = shutil.which("cvc5")


def _num(v, sort):
    v = Fraction(v)
    if sort == "I":
        n = int(v)
        return str(n) if n >= 0 else "(- %d)" % -n
    if v.denominator == 1:
        s = "%d.0" % abs(v.numerator)
    else:
        s = "(/ %d.0 %d.0)" % (abs(v.numerator), v.denominator)
    return s if v >= 0 else "(- %s)" % s


def _sym(name):
    if re.fullmatch(r"[A-Za-z_][A-Za-z0-9_.!]*", name):
        return name
    return "|" + name.replace("|", "!") + "|"


class Emitter:
    """Turns terms into SMT-LIB text.  `app` nodes are emitted either as declared constants (atoms of the
    exp/log/sqrt abstraction, named by the registry) or as uninterpreted function applications."""

    def __init__(self, registry):
        self.reg = registry
        self.decls = {}  # name -> decl line
        self.names = {}  # term -> text for let-bound / leaf nodes

    def _declare_var(self, t):
        name = _sym(t.args[0])
        sort = {"R": "Real", "I": "Int", "B": "Bool", "F32": "(_ FloatingPoint 8 24)", "F64": "(_ FloatingPoint 11 53)"}[t.sort]
        self.decls[name] = "(declare-const %s %s)" % (name, sort)
        return name

    def _declare_app(self, t):
        fname = t.args[0]
        if self.reg.is_uf(fname):
            nm = _sym("uf_" + fname)
            argsorts = " ".join({"R": "Real", "I": "Int", "B": "Bool"}[a.sort] for a in t.args[1:])
            self.decls[nm] = "(declare-fun %s (%s) %s)" % (nm, argsorts, {"R": "Real", "I": "Int", "B": "Bool"}[t.sort])
            return None
        nm = _sym(self.reg.atom_name(t))
        self.decls[nm] = "(declare-const %s %s)" % (nm, {"R": "Real", "I": "Int", "B": "Bool"}[t.sort])
        return nm

    def expr(self, root):
        """SMT text of a term, sharing repeated sub-terms through nested lets."""
        nodes = tm.walk([root])
        refs = {}
        for n in nodes:
            for c in tm.children(n):
                refs[c] = refs.get(c, 0) + 1
        text = {}
        lets = []
        k = [0]

        def render(n):
            op = n.op
            g = lambda u: text[u]
            if op == "const":
                return _num(n.args[0], n.sort)
            if op == "var":
                return self._declare_var(n)
            if op == "true":
                return "true"
            if op == "false":
                return "false"
            if op == "add":
                c0, items = n.args
                parts = []
                if c0 != 0:
                    parts.append(_num(c0, n.sort))
                for c, b in items:
                    bt = g(b)
                    if b.sort == "I" and n.sort == "R":
                        bt = "(to_real %s)" % bt
                    if c == 1:
                        parts.append(bt)
                    elif c == -1:
                        parts.append("(- %s)" % bt)
                    else:
                        parts.append("(* %s %s)" % (_num(c, n.sort), bt))
                return parts[0] if len(parts) == 1 else "(+ %s)" % " ".join(parts)
            if op == "mul":
                nums, dens = [], []
                for b, e in n.args:
                    bt = g(b)
                    if b.sort == "I" and n.sort == "R":
                        bt = "(to_real %s)" % bt
                    (nums if e > 0 else dens).extend([bt] * abs(e))
                nt = "1.0" if not nums else (nums[0] if len(nums) == 1 else "(* %s)" % " ".join(nums))
                if n.sort == "I":
                    nt = "1" if not nums else nt
                if not dens:
                    return nt
                dt = dens[0] if len(dens) == 1 else "(* %s)" % " ".join(dens)
                return "(/ %s %s)" % (nt, dt)
            if op == "ite":
                a, b = g(n.args[1]), g(n.args[2])
                if n.sort == "R":
                    if n.args[1].sort == "I":
                        a = "(to_real %s)" % a
                    if n.args[2].sort == "I":
                        b = "(to_real %s)" % b
                return "(ite %s %s %s)" % (g(n.args[0]), a, b)
            if op == "app":
                nm = self._declare_app(n)
                if nm is not None:
                    return nm
                return "(%s %s)" % (_sym("uf_" + n.args[0]), " ".join(g(a) for a in n.args[1:]))
            if op in ("le0", "lt0", "eq0"):
                z = "0.0" if n.args[0].sort == "R" else "0"
                return "(%s %s %s)" % ({"le0": "<=", "lt0": "<", "eq0": "="}[op], g(n.args[0]), z)
            if op == "not":
                return "(not %s)" % g(n.args[0])
            if op in ("and", "or"):
                return "(%s %s)" % (op, " ".join(g(a) for a in n.args))
            if op == "to_real":
                return "(to_real %s)" % g(n.args[0])
            if op == "floor":
                return "(to_int %s)" % g(n.args[0])
            if op == "fconst":
                bits = n.args[0]
                if n.sort == "F32":
                    b = format(bits, "032b")
                    return "(fp #b%s #b%s #b%s)" % (b[0], b[1:9], b[9:])
                b = format(bits, "064b")
                return "(fp #b%s #b%s #b%s)" % (b[0], b[1:12], b[12:])
            if op == "fminpos":
                if n.sort == "F32":
                    return "(fp #b0 #b00000000 #b00000000000000000000001)"
                return "(fp #b0 #b00000000000 #b%s1)" % ("0" * 51)
            if op in ("fadd", "fsub", "fmul", "fdiv"):
                return "(fp.%s %s %s %s)" % (op[1:], n.args[2], g(n.args[0]), g(n.args[1]))
            if op == "fneg":
                return "(fp.neg %s)" % g(n.args[0])
            if op == "fcmp":
                return "(fp.%s %s %s)" % (n.args[0], g(n.args[1]), g(n.args[2]))
            if op == "imod":
                return "(mod %s %d)" % (g(n.args[0]), n.args[1])
            if op == "idiv":
                return "(div %s %d)" % (g(n.args[0]), n.args[1])
            raise ValueError(op)

        for n in nodes:
            s = render(n)
            if refs.get(n, 0) > 1 and len(s) > 24 and n is not root:
                k[0] += 1
                nm = "?s%d" % k[0]
                lets.append((nm, s))
                text[n] = nm
            else:
                text[n] = s
        body = text[root]
        for nm, s in reversed(lets):
            body = "(let ((%s %s)) %s)" % (nm, s, body)
        return body


def build_script(registry, assertions, logic=None, want_model=True, timeout_ms=None, extra_values=()):
    """assertions: Bool terms.  Axioms of every variable / atom that occurs are added (closure)."""
    assertions = [a for a in assertions if a is not tm.TRUE]
    closure = registry.axiom_closure(list(assertions) + list(extra_values))
    em = Emitter(registry)
    lines = []
    for a in list(assertions) + closure:
        lines.append("(assert %s)" % em.expr(a))
    value_terms = []
    if want_model:
        seen = set()
        for t in tm.walk(list(assertions) + closure + list(extra_values)):
            if t.op == "var" or (t.op == "app" and not registry.is_uf(t.args[0])):
                if t not in seen:
                    seen.add(t)
                    value_terms.append(t)
    names = [em.expr(t) for t in value_terms]
    if logic is None:
        logic = guess_logic(list(assertions) + closure, registry)
    head = []
    if timeout_ms:
        head.append("(set-option :timeout %d)" % timeout_ms)
    head.append("(set-option :pp.decimal false)")
    head.append("(set-logic %s)" % logic)
    script = "\n".join(head + sorted(em.decls.values()) + lines + ["(check-sat)"])
    return script, value_terms, names


def guess_logic(terms, registry):
    has_uf = has_int = has_real = nonlin = False
    if any(t.sort in ("F32", "F64") for t in tm.walk(terms)):
        return "QF_FP"
    for t in tm.walk(terms):
        if t.op == "app" and registry.is_uf(t.args[0]):
            has_uf = True
        if t.sort == "I" and t.op in ("var", "floor", "imod", "idiv", "app"):
            has_int = True
        if t.sort == "R" and t.op in ("var", "app"):
            has_real = True
        if t.op == "mul":
            nonconst = [b for b, e in t.args]
            if len(nonconst) > 1 or any(abs(e) > 1 or e < 0 for _, e in t.args):
                nonlin = True
    if has_int and has_real:
        base = "NIRA" if nonlin else "LIRA"
    elif has_int:
        base = "NIA" if nonlin else "LIA"
    else:
        base = "NRA" if nonlin else "LRA"
    return "QF_" + ("UF" if has_uf else "") + base


# ----------------------------------------------------------------------------------------------
# model parsing

_TOKEN = re.compile(r"\(|\)|[^\s()]+")


def _parse_sexprs(text):
    toks = _TOKEN.findall(text)
    pos = 0

    def rd():
        nonlocal pos
        tok = toks[pos]
        pos += 1
        if tok == "(":
            lst = []
            while toks[pos] != ")":
                lst.append(rd())
            pos += 1
            return lst
        return tok

    out = []
    while pos < len(toks):
        out.append(rd())
    return out


def _val(e):
    """Numeric value of a z3 model value s-expression; algebraic numbers become float approximations."""
    if isinstance(e, str):
        if e == "true":
            return True
        if e == "false":
            return False
        if e.endswith("?"):
            return float(e[:-1])
        try:
            return Fraction(e)
        except ValueError:
            return None
    if not e:
        return None
    h = e[0]
    if h == "-" and len(e) == 2:
        v = _val(e[1])
        return None if v is None else -v
    if h == "/" and len(e) == 3:
        a, b = _val(e[1]), _val(e[2])
        if a is None or b is None:
            return None
        return a / b if not isinstance(a, float) and not isinstance(b, float) else float(a) / float(b)
    if h == "root-obj":
        return _root_obj(e)
    if h == "fp" and len(e) == 4:
        import struct

        bits = "".join(x[2:] if x.startswith("#b") else format(int(x[2:], 16), "0%db" % (4 * len(x[2:]))) for x in e[1:])
        if len(bits) == 32:
            return float(struct.unpack(">f", int(bits, 2).to_bytes(4, "big"))[0])
        if len(bits) == 64:
            return float(struct.unpack(">d", int(bits, 2).to_bytes(8, "big"))[0])
        return None
    if h == "_" and len(e) >= 2 and e[1] in ("+zero", "-zero"):
        return 0.0
    if h == "_" and len(e) >= 2 and e[1] in ("+oo",):
        return float("inf")
    if h == "_" and len(e) >= 2 and e[1] in ("-oo",):
        return float("-inf")
    if h == "_" and len(e) >= 2 and e[1] == "NaN":
        return float("nan")
    if h in ("+", "*"):
        vals = [_val(x) for x in e[1:]]
        if any(v is None for v in vals):
            return None
        r = vals[0]
        for v in vals[1:]:
            r = (r + v) if h == "+" else (r * v)
        return r
    return None


def _root_obj(e):
    """(root-obj poly k): k-th real root of the polynomial in x; numeric approximation via numpy."""
    import numpy as np

    poly, k = e[1], int(e[2])

    def coeffs(p):
        # returns dict power->coeff
        if isinstance(p, str):
            if p == "x":
                return {1: Fraction(1)}
            return {0: Fraction(p)}
        h = p[0]
        if h == "^":
            base = coeffs(p[1])
            n = int(p[2])
            r = {0: Fraction(1)}
            for _ in range(n):
                r = _pmul(r, base)
            return r
        if h == "*":
            r = {0: Fraction(1)}
            for q in p[1:]:
                r = _pmul(r, coeffs(q))
            return r
        if h == "+":
            r = {}
            for q in p[1:]:
                for d, c in coeffs(q).items():
                    r[d] = r.get(d, 0) + c
            return r
        if h == "-":
            if len(p) == 2:
                return {d: -c for d, c in coeffs(p[1]).items()}
            r = dict(coeffs(p[1]))
            for q in p[2:]:
                for d, c in coeffs(q).items():
                    r[d] = r.get(d, 0) - c
            return r
        if h == "/":
            a, b = coeffs(p[1]), coeffs(p[2])
            return {d: c / b[0] for d, c in a.items()}
        raise ValueError(p)

    cs = coeffs(poly)
    deg = max(cs)
    arr = [float(cs.get(d, 0)) for d in range(deg, -1, -1)]
    roots = sorted(r.real for r in np.roots(arr) if abs(r.imag) < 1e-9 * max(1.0, abs(r.real)))
    if 1 <= k <= len(roots):
        return float(roots[k - 1])
    return None


def _pmul(a, b):
    r = {}
    for d1, c1 in a.items():
        for d2, c2 in b.items():
            r[d1 + d2] = r.get(d1 + d2, 0) + c1 * c2
    return r


def die_with_parent():
    """the child is killed when its parent dies (no orphan solvers / workers after a timeout)."""
    try:
        import ctypes
        import signal

        ctypes.CDLL("libc.so.6").prctl(1, signal.SIGKILL)  # PR_SET_PDEATHSIG
    except Exception:
        pass


class Z3Proc:
    """A persistent `z3 -in` child; one query at a time, `(reset)` between queries, killed on timeout."""

    def __init__(self, binary=None):
        self.binary = binary or Z3_BIN
        self.p = None
        self.queries = 0
        self.restarts = 0

    def _start(self):
        self.p = subprocess.Popen([self.binary, "-in", "-smt2"], stdin=subprocess.PIPE, stdout=subprocess.PIPE, stderr=subprocess.STDOUT, bufsize=0, preexec_fn=die_with_parent)
        self._buf = b""

    def close(self):
        if self.p is not None:
            try:
                self.p.kill()
                self.p.wait(timeout=5)
            except Exception:
                pass
            self.p = None

    def _send(self, text):
        data = text.encode()
        fd = self.p.stdin.fileno()
        while data:
            n = os.write(fd, data)
            data = data[n:]

    def _read_balanced(self, deadline):
        """Read one top-level answer (a symbol line or a balanced s-expression); raw fd reads so that
        select() sees everything that is pending."""
        fd = self.p.stdout.fileno()
        while True:
            # try to cut one complete answer out of the buffer
            txt = self._buf.decode(errors="replace")
            stripped = txt.lstrip()
            if stripped:
                if stripped[0] != "(":
                    nl = stripped.find("\n")
                    if nl >= 0:
                        ans = stripped[:nl]
                        self._buf = stripped[nl + 1:].encode()
                        return ans
                else:
                    depth = 0
                    instr = False
                    for i, ch in enumerate(stripped):
                        if ch == '"':
                            instr = not instr
                        elif instr:
                            continue
                        elif ch == "(":
                            depth += 1
                        elif ch == ")":
                            depth -= 1
                            if depth == 0:
                                self._buf = stripped[i + 1:].encode()
                                return stripped[: i + 1]
            remaining = deadline - time.time()
            if remaining <= 0:
                return None
            r, _, _ = select.select([fd], [], [], min(remaining, 0.5))
            if not r:
                if self.p.poll() is not None:
                    return None
                continue
            chunk = os.read(fd, 1 << 16)
            if not chunk:
                return None
            self._buf += chunk

    def check(self, script, names=(), timeout_s=60.0):
        """Returns (status, model_text_or_None, seconds).  status in sat/unsat/unknown/timeout/error."""
        if self.p is None or self.p.poll() is not None:
            self._start()
        t0 = time.time()
        self.queries += 1
        deadline = t0 + timeout_s
        try:
            self._buf = b""
            self._send("(reset)\n" + script + "\n")
        except BrokenPipeError:
            self.close()
            return "error", "broken pipe", time.time() - t0
        ans = self._read_balanced(deadline)
        if ans is None:
            self.close()
            self.restarts += 1
            return "timeout", None, time.time() - t0
        a = ans.strip()
        if "(error" in a:
            # drain possible further output
            self.close()
            return "error", a, time.time() - t0
        st = a.split()[0] if a else "error"
        if st not in ("sat", "unsat", "unknown"):
            self.close()
            return "error", a, time.time() - t0
        model = None
        if st == "sat" and names:
            try:
                self._send("(set-option :pp.decimal true)(set-option :pp.decimal_precision 30)(get-value (%s))\n" % " ".join(names))
                model = self._read_balanced(max(deadline, time.time() + 10))
            except BrokenPipeError:
                model = None
            if model is None or "(error" in (model or ""):
                self.close()
                model = None
        return st, model, time.time() - t0


def parse_model(model_text, value_terms, names):
    """-> {term: Fraction|float|bool} for the value terms that could be read."""
    out = {}
    if not model_text:
        return out
    try:
        sx = _parse_sexprs(model_text)
    except Exception:
        return out
    if not sx:
        return out
    pairs = sx[0]
    by_name = {}
    for pr in pairs:
        if isinstance(pr, list) and len(pr) == 2:
            key = pr[0] if isinstance(pr[0], str) else None
            if key is not None:
                by_name[key] = _val(pr[1])
    for t, nm in zip(value_terms, names):
        v = by_name.get(nm)
        if v is not None:
            out[t] = v
    return out


def run_binary(script, binary, timeout_s, extra_args=()):
    """One-shot run of a solver binary on a script (used for the cvc5 / old-z3 cross-check)."""
    import tempfile

    with tempfile.NamedTemporaryFile("w", suffix=".smt2", delete=False) as f:
        f.write(script + "\n")
        path = f.name
    t0 = time.time()
    try:
        r = subprocess.run([binary, *extra_args, path], capture_output=True, text=True, timeout=timeout_s)
        out = (r.stdout + r.stderr).strip()
        if "(error" in out or "error" in out.lower().split("\n")[0:1]:
            st = "error"
        else:
            st = out.split()[0] if out else "error"
    except subprocess.TimeoutExpired:
        st, out = "timeout", ""
    finally:
        os.unlink(path)
    return st, out, time.time() - t0
