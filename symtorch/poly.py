"""Canonical rational-function form of real terms (a pre-processor for identity goals).

A term is expanded to  N / prod_i F_i^e_i  with N and the F_i multivariate polynomials over *atoms*
(variables, uninterpreted / transcendental atoms, ite nodes).  An identity  a == b  then becomes the
polynomial equation  numerator(a - b) == 0  (valid wherever the denominators are non-zero - those facts are
engine obligations proven separately), which z3 refutes trivially when the numerator is the zero
polynomial and decides with nlsat otherwise.  sqrt / root atoms are reduced with their defining equations
(s^2 = arg, r^q = base).
"""
from fractions import Fraction
import time

from . import term as tm

MAX_TERMS = 40000


class TooBig(Exception):
    pass


# polynomial: dict monomial -> Fraction ; monomial: tuple of (atom_term_id, exp) sorted by id
_ATOMS = {}


def _atom_id(t):
    _ATOMS[t.id] = t
    return t.id


def p_const(c):
    c = Fraction(c)
    return {(): c} if c != 0 else {}


def p_atom(t):
    return {((_atom_id(t), 1),): Fraction(1)}


def p_add(a, b, kb=Fraction(1)):
    out = dict(a)
    for m, c in b.items():
        v = out.get(m, 0) + kb * c
        if v == 0:
            out.pop(m, None)
        else:
            out[m] = v
    return out


def _mmul(m1, m2):
    if not m1:
        return m2
    if not m2:
        return m1
    d = dict(m1)
    for a, e in m2:
        d[a] = d.get(a, 0) + e
    return tuple(sorted(d.items()))


BUDGET_S = 40.0  # wall-clock budget of one difference_numerator call (a mismatching pair can expand without end)
_DEADLINE = [None]


def p_mul(a, b):
    if not a or not b:
        return {}
    if len(a) * len(b) > MAX_TERMS * 100:
        raise TooBig()
    out = {}
    for m1, c1 in a.items():
        if _DEADLINE[0] is not None and time.time() > _DEADLINE[0]:
            raise TooBig()
        for m2, c2 in b.items():
            m = _mmul(m1, m2)
            v = out.get(m, 0) + c1 * c2
            if v == 0:
                out.pop(m, None)
            else:
                out[m] = v
    if len(out) > MAX_TERMS:
        raise TooBig()
    return out


def p_scale(a, k):
    k = Fraction(k)
    if k == 0:
        return {}
    return {m: c * k for m, c in a.items()}


def p_pow(a, n):
    r = p_const(1)
    b = a
    while n:
        if n & 1:
            r = p_mul(r, b)
        n >>= 1
        if n:
            b = p_mul(b, b)
    return r


def _lead(a):
    """leading monomial under the graded-lex-like order given by tuple comparison of (degree, monomial)."""
    return max(a, key=lambda m: (sum(e for _, e in m), m))


def _mdiv(m1, m2):
    d = dict(m1)
    for a, e in m2:
        if d.get(a, 0) < e:
            return None
        d[a] -= e
        if d[a] == 0:
            del d[a]
    return tuple(sorted(d.items()))


def p_divide(a, b, limit=400):
    """exact quotient a / b of multivariate polynomials, or None if b does not divide a."""
    if not b:
        return None
    if not a:
        return {}
    q = {}
    r = dict(a)
    lb = _lead(b)
    cb = b[lb]
    steps = 0
    while r:
        steps += 1
        if steps > limit:
            return None
        lr = _lead(r)
        m = _mdiv(lr, lb)
        if m is None:
            return None
        c = r[lr] / cb
        q[m] = q.get(m, 0) + c
        for mb, vb in b.items():
            mm = _mmul(m, mb)
            v = r.get(mm, 0) - c * vb
            if v == 0:
                r.pop(mm, None)
            else:
                r[mm] = v
    return q


def p_key(a):
    return tuple(sorted(a.items()))


def p_is_const(a):
    return all(m == () for m in a)


def p_normalize_factor(a):
    """scale so that the leading (smallest key) coefficient is 1; returns (poly, scale) with a = scale*poly."""
    if not a:
        return a, Fraction(0)
    lead = a[min(a)]
    if lead == 1:
        return a, Fraction(1)
    return {m: c / lead for m, c in a.items()}, lead


class Rat:
    """num / prod(factors[key][0] ** factors[key][1])"""

    __slots__ = ("num", "den")

    def __init__(self, num, den=None):
        self.num = num
        self.den = den or {}

    @staticmethod
    def const(c):
        return Rat(p_const(c))

    def _lift_to(self, den):
        """numerator expressed over the (larger) denominator `den`."""
        n = self.num
        for k, (f, e) in den.items():
            have = self.den.get(k, (None, 0))[1]
            if e > have:
                n = p_mul(n, p_pow(f, e - have))
        return n

    def add(self, o, ko=Fraction(1)):
        den = dict(self.den)
        for k, (f, e) in o.den.items():
            if k not in den or den[k][1] < e:
                den[k] = (f, e)
        n = p_add(self._lift_to(den), o._lift_to(den), ko)
        return Rat(n, den)._cancel_trivial()

    def mul(self, o):
        den = dict(self.den)
        for k, (f, e) in o.den.items():
            den[k] = (f, den[k][1] + e) if k in den else (f, e)
        return Rat(p_mul(self.num, o.num), den)._cancel_trivial()

    def inv(self):
        # 1 / (num/den) = den / num
        n = p_const(1)
        for k, (f, e) in self.den.items():
            n = p_mul(n, p_pow(f, e))
        if p_is_const(self.num):
            c = self.num.get((), Fraction(0))
            if c == 0:
                raise ZeroDivisionError("inverse of zero rational function")
            return Rat(p_scale(n, 1 / c))
        f, s = p_normalize_factor(self.num)
        return Rat(p_scale(n, 1 / s), {p_key(f): (f, 1)})

    def pow(self, n):
        if n == 0:
            return Rat.const(1)
        if n < 0:
            return self.inv().pow(-n)
        return Rat(p_pow(self.num, n), {k: (f, e * n) for k, (f, e) in self.den.items()})

    def cancel(self):
        """divide out denominator factors that divide the numerator exactly."""
        r = self
        changed = True
        while changed and r.den and r.num:
            changed = False
            for k, (f, e) in list(r.den.items()):
                if p_is_const(f):
                    continue
                q = p_divide(r.num, f)
                if q is not None:
                    den = dict(r.den)
                    if e == 1:
                        del den[k]
                    else:
                        den[k] = (f, e - 1)
                    r = Rat(q, den)
                    changed = True
                    break
        return r

    def _cancel_trivial(self):
        if not self.num:
            return Rat({}, {})
        # cancel a denominator factor that equals the numerator up to a constant
        if self.den:
            f, s = p_normalize_factor(self.num)
            k = p_key(f)
            if k in self.den:
                den = dict(self.den)
                ff, e = den[k]
                if e == 1:
                    del den[k]
                else:
                    den[k] = (ff, e - 1)
                return Rat(p_const(s), den)
        return self

    def is_zero(self):
        return not self.num


def _sub_atom(p, aid, value_rat_of_power):
    """P(atom) with atom^k replaced by value_rat_of_power(k) (a Rat); returns a Rat."""
    groups = {}
    for m, c in p.items():
        e = 0
        rest = []
        for a, k in m:
            if a == aid:
                e = k
            else:
                rest.append((a, k))
        groups.setdefault(e, {})[tuple(rest)] = c
    total = Rat({})
    for e, q in groups.items():
        total = total.add(Rat(q).mul(value_rat_of_power(e)))
    return total


class Expander:
    def __init__(self, reduce_roots=True):
        self.memo = {}
        self.reduce_roots = reduce_roots

    def rat(self, t):
        r = self.memo.get(t)
        if r is not None:
            return r
        op = t.op
        if op == "const":
            r = Rat.const(t.args[0])
        elif op == "add":
            c0, items = t.args
            r = Rat.const(c0)
            for c, b in items:
                r = r.add(self.rat(b), c)
        elif op == "mul":
            r = Rat.const(1)
            for b, e in t.args:
                r = r.mul(self.rat(b).pow(e))
        elif op == "to_real":
            r = self.rat(t.args[0]) if t.args[0].op in ("const", "add", "mul") else Rat(p_atom(t))
        else:
            r = Rat(p_atom(t))
        self.memo[t] = r
        return r

    def reduce(self, r):
        """rewrite even powers of sqrt atoms and q-th powers of root atoms by their definitions."""
        if not self.reduce_roots:
            return r
        for _ in range(6):
            target = None
            for m in r.num:
                for aid, e in m:
                    a = _ATOMS[aid]
                    if a.op == "app" and ((a.args[0] == "sqrt" and e >= 2) or (a.args[0] == "root" and e >= int(a.args[2].args[0]))):
                        target = a
                        break
                if target is not None:
                    break
            if target is None:
                return r
            q = 2 if target.args[0] == "sqrt" else int(target.args[2].args[0])
            base = self.rat(target.args[1])
            atom_r = Rat(p_atom(target))

            def powr(k, base=base, atom_r=atom_r, q=q):
                return base.pow(k // q).mul(atom_r.pow(k % q))

            num = _sub_atom(r.num, target.id, powr)
            r = num.mul(Rat(p_const(1), dict(r.den)))
        return r


def poly_term(p):
    parts = []
    for m, c in sorted(p.items()):
        fs = [tm.power(_ATOMS[a], e) for a, e in m]
        parts.append(tm.scale(c, tm.mul(*fs) if fs else tm.ONE))
    return tm.add(*parts) if parts else tm.ZERO


def difference_numerator(a, b):
    """polynomial term N with  a - b == N / D  (D a product of the denominators occurring in a and b), or
    None when the expansion is too large."""
    outer = _DEADLINE[0] is None
    if outer:
        _DEADLINE[0] = time.time() + BUDGET_S
    try:
        ex = Expander()
        r = ex.rat(a).add(ex.rat(b), Fraction(-1))
        r = ex.reduce(r)
        return poly_term(r.num), len(r.num)
    except (TooBig, RecursionError):
        return None
    finally:
        if outer:
            _DEADLINE[0] = None


def eq_goal_reparam(reg, a, b):
    """like eq_goal, but the identity is first tried after the exact affine re-parametrisation of
    local.reparam (much smaller polynomials); only an identically-zero numerator is accepted from it."""
    from . import local, scalars as sc

    try:
        mp, _ = local.reparam(reg, [a, b])
        if mp:
            r = difference_numerator(sc.subst(a, mp), sc.subst(b, mp))
            if r is not None and r[1] == 0:
                return tm.TRUE, 0
    except (TooBig, RecursionError):
        pass
    return eq_goal(a, b)


def eq_goal(a, b):
    """Bool term equivalent to a == b wherever all denominators are non-zero; plus the numerator size."""
    r = difference_numerator(a, b)
    if r is None:
        return tm.eq(a, b), -1
    n, size = r
    return tm.eq0(n), size
