"""Differential self-test of the symbolic tensor op table against real torch (float64).

Every handler is run on random *concrete* rational tensors through `Sym` (the result terms are constants or are
evaluated with the float meaning of the atoms) and through real torch; |difference| <= 1e-9.  Run by setup.sh; a
mismatch means the engine's model of torch is wrong and no check may be trusted.
"""
import math
import random
import sys

import numpy as np
import torch
from torch.nn import functional as F

from . import term as tm
from . import scalars as sc
from .tensor import Sym, _obj, lift
from .scalars import S


def sym_of(t):
    return Sym(_obj(t.numpy().astype(np.float64)))


def to_float(s):
    a = s.a if isinstance(s, Sym) else np.asarray(s, dtype=object)
    out = np.empty(a.shape, dtype=np.float64)
    funcs = {"root": lambda b, q: b ** (1.0 / q)}
    for idx in np.ndindex(a.shape):
        e = a[idx]
        t = e.t
        if t.sort == "B":
            out[idx] = 1.0 if tm.evaluate(t, {}, funcs) else 0.0
        else:
            out[idx] = float(tm.evaluate(t, {}, funcs))
    return out


def main():
    rng = random.Random(0)
    torch.manual_seed(0)
    sc.new_registry()
    x = (torch.rand(2, 3, dtype=torch.float64) * 2 - 1).round(decimals=3)
    y = (torch.rand(2, 3, dtype=torch.float64) + 0.5).round(decimals=3)
    w = (torch.rand(3, 3, dtype=torch.float64) - 0.5).round(decimals=3) + torch.eye(3, dtype=torch.float64)
    idx = torch.tensor([[2, 0, 1], [1, 1, 0]])
    X, Y, W = sym_of(x), sym_of(y), sym_of(w)
    cases = [
        ("add", lambda: X + Y, lambda: x + y),
        ("rsub", lambda: 2.5 - X, lambda: 2.5 - x),
        ("mul", lambda: X * Y, lambda: x * y),
        ("div", lambda: X / Y, lambda: x / y),
        ("pow", lambda: Y.pow(3), lambda: y.pow(3)),
        ("neg/abs", lambda: abs(-X), lambda: abs(-x)),
        ("exp", lambda: torch.exp(X), lambda: torch.exp(x)),
        ("log", lambda: torch.log(Y), lambda: torch.log(y)),
        ("log1p", lambda: torch.log1p(Y), lambda: torch.log1p(y)),
        ("sqrt", lambda: torch.sqrt(Y), lambda: torch.sqrt(y)),
        ("rsqrt", lambda: torch.rsqrt(Y), lambda: torch.rsqrt(y)),
        ("sigmoid", lambda: torch.sigmoid(X), lambda: torch.sigmoid(x)),
        ("tanh", lambda: torch.tanh(X), lambda: torch.tanh(x)),
        ("atan", lambda: torch.atan(X), lambda: torch.atan(x)),
        ("softplus", lambda: F.softplus(X), lambda: F.softplus(x)),
        ("softplus-beta", lambda: F.softplus(X, beta=0.7), lambda: F.softplus(x, beta=0.7)),
        ("softmax", lambda: F.softmax(X, dim=-1), lambda: F.softmax(x, dim=-1)),
        ("log_softmax", lambda: torch.log_softmax(X, dim=-1), lambda: torch.log_softmax(x, dim=-1)),
        ("logsumexp", lambda: torch.logsumexp(X, dim=-1), lambda: torch.logsumexp(x, dim=-1)),
        ("leaky_relu", lambda: F.leaky_relu(X, 0.2), lambda: F.leaky_relu(x, 0.2)),
        ("relu", lambda: F.relu(X), lambda: F.relu(x)),
        ("glu", lambda: F.glu(torch.cat([X, Y], 1), dim=1), lambda: F.glu(torch.cat([x, y], 1), dim=1)),
        ("sum", lambda: torch.sum(X, dim=[1]), lambda: torch.sum(x, dim=[1])),
        ("sum-empty-dims", lambda: torch.sum(X, dim=[]), lambda: torch.sum(x, dim=[])),
        ("cumsum", lambda: torch.cumsum(X, dim=-1), lambda: torch.cumsum(x, dim=-1)),
        ("mean", lambda: X.mean(0), lambda: x.mean(0)),
        ("var", lambda: X.var(0), lambda: x.var(0)),
        ("std", lambda: Y.std(dim=0), lambda: y.std(dim=0)),
        ("var_mean", lambda: sum(torch.var_mean(X, dim=0)), lambda: sum(torch.var_mean(x, dim=0))),
        ("min/max", lambda: torch.min(X) + torch.max(X), lambda: torch.min(x) + torch.max(x)),
        ("min2", lambda: torch.min(X, Y), lambda: torch.min(x, y)),
        ("clamp", lambda: torch.clamp(X, 0, 0.5), lambda: torch.clamp(x, 0, 0.5)),
        ("where", lambda: torch.where(X > 0, X, Y), lambda: torch.where(x > 0, x, y)),
        ("sign", lambda: torch.sign(X), lambda: torch.sign(x)),
        ("pad", lambda: F.pad(X, pad=(1, 2), value=0.5), lambda: F.pad(x, pad=(1, 2), value=0.5)),
        ("cat/stack", lambda: torch.stack([torch.cat([X, Y], 1), torch.cat([Y, X], 1)], 0), lambda: torch.stack([torch.cat([x, y], 1), torch.cat([y, x], 1)], 0)),
        ("gather", lambda: X.gather(-1, idx), lambda: x.gather(-1, idx)),
        ("index_select", lambda: torch.index_select(X, 1, torch.tensor([2, 0])), lambda: torch.index_select(x, 1, torch.tensor([2, 0]))),
        ("unbind", lambda: torch.stack(X.unbind(1), 0), lambda: torch.stack(x.unbind(1), 0)),
        ("chunk", lambda: torch.cat(torch.chunk(X, 2, dim=1), 1), lambda: torch.cat(torch.chunk(x, 2, dim=1), 1)),
        ("linear", lambda: F.linear(X, W, Y[0]), lambda: F.linear(x, w, y[0])),
        ("matmul", lambda: X @ W, lambda: x @ w),
        ("ger", lambda: torch.ger(X[0], Y[1]), lambda: torch.ger(x[0], y[1])),
        ("diag", lambda: torch.diag(X[0]) + torch.diag(torch.diag(W)), lambda: torch.diag(x[0]) + torch.diag(torch.diag(w))),
        ("inverse", lambda: torch.inverse(W), lambda: torch.inverse(w)),
        ("exp_/neg_/tanh_ (in place)", lambda: (X * 0.1).exp_().neg_().tanh_(), lambda: (x * 0.1).exp_().neg_().tanh_()),
        ("slogdet", lambda: torch.slogdet(W)[1], lambda: torch.slogdet(w)[1]),
        ("solve_triangular", lambda: torch.linalg.solve_triangular(torch.triu(w), X.t(), upper=True), lambda: torch.linalg.solve_triangular(torch.triu(w), x.t(), upper=True)),
        ("lu_solve", lambda: torch.lu_solve(X.t(), *torch.lu(W)), lambda: torch.lu_solve(x.t(), *torch.linalg.lu_factor(w))),
        ("linalg.lu_factor/lu_solve", lambda: torch.linalg.lu_solve(*torch.linalg.lu_factor(W), X.t()), lambda: torch.linalg.lu_solve(*torch.linalg.lu_factor(w), x.t())),
        ("lu-logabsdet", lambda: torch.sum(torch.log(torch.abs(torch.diag(torch.lu(W)[0])))), lambda: torch.slogdet(w)[1]),
        ("reshape/permute", lambda: X.reshape(3, 2).t().contiguous().view(-1), lambda: x.reshape(3, 2).t().contiguous().view(-1)),
        ("expand/repeat", lambda: X[None].expand(2, 2, 3).reshape(4, 3) + X.repeat(2, 1), lambda: x[None].expand(2, 2, 3).reshape(4, 3) + x.repeat(2, 1)),
        ("setitem-view", lambda: _setitem(X.clone()), lambda: _setitem(x.clone())),
        ("masked", lambda: _masked(X.clone()), lambda: _masked(x.clone())),
        ("numpy-ufunc", lambda: np.float64(2.0) * X - np.log(Y), lambda: np.float64(2.0) * x - np.log(y)),
        ("nextafter(real)", lambda: torch.nextafter(Y, torch.full_like(Y, float("inf"))), lambda: y),
    ]
    bad = 0
    for name, fs, ft in cases:
        try:
            a = to_float(fs())
            b = ft().detach().numpy().astype(np.float64)
            if a.shape != b.shape or not np.allclose(a, b, atol=1e-9, rtol=1e-9):
                print("selftest MISMATCH %s: %s vs %s" % (name, a.reshape(-1)[:4], b.reshape(-1)[:4]))
                bad += 1
        except Exception as e:  # noqa
            print("selftest ERROR %s: %s: %s" % (name, type(e).__name__, e))
            bad += 1
    print("symtorch selftest: %d ops, %d mismatches" % (len(cases), bad))
    sys.exit(1 if bad else 0)


def _setitem(t):
    v = t[:, 1:]
    v[..., -1] += 0.25
    t[0, 0] = 3.0
    return t


def _masked(t):
    m = t > 0
    out = torch.zeros_like(t)
    out[m] = t[m] * 2
    out[~m] = -1.0
    return out


if __name__ == "__main__":
    main()
