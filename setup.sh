#!/bin/bash
# Nothing to build: the checks run in /venv's python (torch, numpy, nflows editable -> /repo) and talk to the
# z3 binaries on PATH.  This script only verifies that the tools are present and runs the engine self-test.
set -e
cd "$(dirname "$0")"
command -v z3-new >/dev/null || command -v z3 >/dev/null || { echo "no z3 binary on PATH"; exit 1; }
/venv/bin/python -c "import torch, numpy, nflows" 
if [ -f symtorch/selftest.py ]; then PYTHONPATH=/verif PYTHONWARNINGS=ignore /venv/bin/python -m symtorch.selftest; fi
echo setup ok
