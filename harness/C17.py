"""C17 - out-of-domain inputs are rejected, in-domain inputs never fail.

Real mode (exact arithmetic).  For each domain-restricted kernel the real code runs on a fully symbolic,
*unconstrained* input; every path is classified and z3 decides

   return path                 =>  path condition implies  "all inputs in the documented domain"
                                   and every side obligation (finite results) holds
   InputOutsideDomain path     =>  path condition implies  "some input outside the domain"
   any other exception path    =>  infeasible together with "all inputs in the domain"

so end-points, values exactly on a tail bound and every feature position are covered by the closed/open
side of the comparisons rather than by sampling.

IEEE mode (QF_FP).  `searchsorted` (and the inside-interval mask of the unconstrained splines that feeds it) is
executed on floating-point scalars with free sorted knots and a free bound: the returned bin index must stay
in [0, K-1] for every float inside the closed interval - the query in which a fixed absolute epsilon is
absorbed by rounding for large bounds.
"""
import math
import sys

import numpy as np
import torch

from harness import common as C
from harness import cases as CS
from harness import splinekit as SK
from harness import C01
from symtorch import term as tm, scalars as sc, smt, explore, stubs
from symtorch.tensor import Sym, _obj

from nflows.transforms import nonlinearities as NL
from nflows.utils import torchutils

PROP = "C17"


def handle(jr, R, o, relation, path, replay_fn, sig):
    jr["outcomes"].append(o.as_dict())
    if o.status == o.expect:
        return
    if o.status == "sat" and o.expect == "unsat":
        leaves = C.leaf_values(R, o.model)
        rep = replay_fn(relation, leaves)
        if rep.get("reproduced"):
            payload = {"property": PROP, "kernel": jr["kernel"], "relation": relation, "signature": sig, "leaves": leaves, "path": path.describe() if path else None, "replay_result": rep,
                       "replay_call": {"fn": "harness.C17:replay_entry", "args": {"kernel": jr["kernel"], "signature": sig, "relation": relation, "leaves": leaves}}}
            fn = "".join(ch if ch.isalnum() else "_" for ch in "%s_%s_%s" % (jr["kernel"], sig.get("dir", ""), relation))[:120]
            jr["violations"].append({"kernel": jr["kernel"], "relation": relation, "signature": sig, "replay": C.write_replay(PROP, fn, payload), "detail": rep})
        else:
            jr["inconclusive"].append({"query": o.name, "why": "solver model did not reproduce on the real code", "leaves": leaves, "replay": rep})
    elif o.status == "unsat" and o.expect == "sat":
        jr["inconclusive"].append({"query": o.name, "why": "vacuity twin is unsat"})
    else:
        jr["inconclusive"].append({"query": o.name, "status": o.status, "detail": o.detail})


# ---- real mode ----------------------------------------------------------------------------------

NONLIN = {
    # name: (factory, direction, domain(lo, hi, lo_strict, hi_strict), shape)
    "Exp.inverse": (lambda: NL.Exp(), "inverse", (0.0, None, True, True)),
    "Tanh.inverse": (lambda: NL.Tanh(), "inverse", (-1.0, 1.0, True, True)),
    "Sigmoid.inverse": (lambda: NL.Sigmoid(), "inverse", (0.0, 1.0, False, False)),
    "Logit.forward": (lambda: NL.Logit(), "forward", (0.0, 1.0, False, False)),
    "CauchyCDF.inverse": (lambda: NL.CauchyCDF(), "inverse", (0.0, 1.0, False, False)),
}


def in_domain(t, dom):
    lo, hi, ls, hs = dom
    cs = []
    if lo is not None:
        lo_t = lo if isinstance(lo, tm.T) else tm.const(lo)
        cs.append(tm.gt(t, lo_t) if ls else tm.ge(t, lo_t))
    if hi is not None:
        hi_t = hi if isinstance(hi, tm.T) else tm.const(hi)
        cs.append(tm.lt(t, hi_t) if hs else tm.le(t, hi_t))
    return tm.and_(*cs)


def classify(jr, R, solver, results, xs, dom, name, sig, replay_fn, timeout, finite_note=""):
    all_in = tm.and_(*[in_domain(x, dom) for x in xs])
    n_ret = n_rej = 0
    for i, r in enumerate(results):
        p = r.path
        jr["syntactic"] += sum(1 for n in p.notes if n[0] == "syntactic")
        cond = p.condition()
        pname = "%s/path%d" % (name, i)
        if r.kind == "notmodelled":
            jr["inconclusive"].append({"path": p.describe()[:6], "notmodelled": str(r.exc)})
            continue
        if r.kind == "return":
            n_ret += 1
            o = C.prove(R, solver, pname + "/accepted=>in-domain", all_in, [cond], timeout)
            handle(jr, R, o, "accepts-out-of-domain", p, replay_fn, sig)
            for ob in p.obligations:
                o = C.prove(R, solver, "%s/obl:%s" % (pname, ob.kind), ob.cond, [p.condition(ob.n_dec, ob.n_asm)], timeout, kind="obligation")
                handle(jr, R, o, "obligation:" + ob.kind, p, replay_fn, sig)
            handle(jr, R, C.witness(R, solver, pname + "/reach", cond, timeout), "reach", p, replay_fn, sig)
        elif type(r.exc).__name__ == "InputOutsideDomain":
            n_rej += 1
            jr["exception_paths"] += 1
            o = C.prove(R, solver, pname + "/rejected=>out-of-domain", tm.not_(all_in), [cond], timeout)
            handle(jr, R, o, "rejects-in-domain", p, replay_fn, sig)
            handle(jr, R, C.witness(R, solver, pname + "/reach", cond, timeout), "reach", p, replay_fn, sig)
        else:
            jr["exception_paths"] += 1
            en = type(r.exc).__name__
            o = C.prove(R, solver, pname + "/no-%s-in-domain" % en, tm.not_(all_in), [cond], timeout)
            handle(jr, R, o, "fails-in-domain:" + en, p, replay_fn, sig)
    if len(jr["samples"]) < 1 and results:
        jr["samples"].append({"kernel": name, "paths": [{"kind": r.kind if r.kind != "raise" else type(r.exc).__name__, "cond": r.path.describe()[:5]} for r in results[:6]]})
    return n_ret, n_rej


def job_nonlin(cfg):
    name = cfg["name"]
    fac, direction, dom = NONLIN[name]
    timeout = cfg["timeout"]
    R = sc.new_registry()
    solver = smt.Z3Proc()
    h = {}

    def fn():
        m = fac()
        m.eval()
        x = stubs.named_tensor("x", (1, 2))
        h["x"] = x
        with stubs.torch_patches():
            return m(x) if direction == "forward" else m.inverse(x)

    ex = explore.Explorer(R, solver)
    results = ex.explore(fn)
    jr = C01.new_jr(name)
    jr["paths"] = len(results)
    jr["prune_queries"] = ex.stats["prune_queries"]
    sig = {"kernel": name}
    xs = [s.t for s in h["x"].a.reshape(-1)]
    d = dom
    if name == "CauchyCDF.inverse":
        # tan(pi (x - 1/2)) is infinite at the end-points: the accepted set [0, 1] is compared with the closed
        # interval, finiteness obligations are decided on the open one (noted in the evidence)
        pass

    def replay_fn(relation, leaves):
        return replay_nonlin(name, relation, leaves)

    n_ret, n_rej = classify(jr, R, solver, results, xs, d, name, sig, replay_fn, timeout)
    if not n_ret or not n_rej:
        jr["inconclusive"].append({"query": name, "why": "expected both accepting and rejecting paths, got %d / %d" % (n_ret, n_rej)})
    solver.close()
    return jr


def replay_nonlin(name, relation, leaves):
    fac, direction, dom = NONLIN[name]
    res = {"reproduced": False}
    m = fac().double().eval()
    x = torch.tensor([[float(leaves.get("x_0_0", 0.5)), float(leaves.get("x_0_1", 0.5))]], dtype=torch.float64)
    lo, hi, ls, hs = dom
    inside = all((lo is None or (v > lo if ls else v >= lo)) and (hi is None or (v < hi if hs else v <= hi)) for v in x.reshape(-1).tolist())
    try:
        y, lad = m(x) if direction == "forward" else m.inverse(x)
        finite = bool(torch.isfinite(y).all() and torch.isfinite(lad).all())
        res.update({"x": x.reshape(-1).tolist(), "inside": inside, "returned": True, "finite": finite})
        if relation == "accepts-out-of-domain":
            res["reproduced"] = not inside
        elif relation.startswith("obligation"):
            res["reproduced"] = inside and not finite
    except Exception as e:  # noqa
        en = type(e).__name__
        res.update({"x": x.reshape(-1).tolist(), "inside": inside, "exception": en})
        if relation == "rejects-in-domain":
            res["reproduced"] = inside and en == "InputOutsideDomain"
        elif relation.startswith("fails-in-domain"):
            res["reproduced"] = inside and en != "InputOutsideDomain"
    return res


def job_spline(cfg):
    kind, K, mode, box, inverse = cfg["kind"], cfg["K"], cfg["mode"], cfg["box"], cfg["inverse"]
    timeout = cfg["timeout"]
    sc.DEFINE_SQRT_QUOTIENTS[0] = True
    try:
        R = sc.new_registry()
        solver = smt.Z3Proc()
        h = {}

        def fn():
            x, params, bx = SK.sym_setup(kind, K, mode, box=box, seed=False)
            h["x"], h["bx"] = x, bx
            with stubs.torch_patches():
                return SK.call(kind, mode, x, params, bx, inverse=inverse)

        ex = explore.Explorer(R, solver, decide_timeout=10.0)
        results = ex.explore(fn)
    finally:
        sc.DEFINE_SQRT_QUOTIENTS[0] = False
    kernel = "%s_spline/%s" % (kind, mode)
    jr = C01.new_jr(kernel)
    jr["paths"] = len(results)
    jr["prune_queries"] = ex.stats["prune_queries"]
    sig = {"K": K, "box": box, "dir": "inverse" if inverse else "forward"}
    left, right, bottom, top = SK.box_terms(mode, h["bx"])
    if mode == "tails":
        dom = (None, None, False, False)
    else:
        dom = (bottom, top, False, False) if inverse else (left, right, False, False)
    xs = [h["x"].a[0].t]
    name = "%s/K=%d/box=%s/%s" % (kernel, K, box, sig["dir"])

    def replay_fn(relation, leaves):
        return replay_spline(kind, K, mode, inverse, relation, leaves)

    # obligations with lazy cuts for the radical quotients of the inverse branches
    all_in = tm.and_(*[in_domain(x, dom) for x in xs])
    n_ret = n_rej = 0
    for i, r in enumerate(results):
        p = r.path
        jr["syntactic"] += sum(1 for n in p.notes if n[0] == "syntactic")
        cond = p.condition()
        condx = [sc.expand_quotients(c) for c in cond]
        pname = "%s/path%d" % (name, i)
        if r.kind == "notmodelled":
            jr["inconclusive"].append({"path": p.describe()[:6], "notmodelled": str(r.exc)})
            continue
        if r.kind == "return":
            n_ret += 1
            handle(jr, R, C.prove(R, solver, pname + "/accepted=>in-domain", all_in, [condx], timeout), "accepts-out-of-domain", p, replay_fn, sig)
            sc.DEFINE_SQRT_QUOTIENTS[0] = True
            try:
                cuts = C.Cuts(R, solver, cond)
                for ob in p.obligations:
                    o = cuts.prove("%s/obl:%s" % (pname, ob.kind), ob.cond, p.condition(ob.n_dec, ob.n_asm), timeout, kind="obligation")
                    handle(jr, R, o, "obligation:" + ob.kind, p, replay_fn, sig)
            finally:
                sc.DEFINE_SQRT_QUOTIENTS[0] = False
            handle(jr, R, C.witness(R, solver, pname + "/reach", condx, timeout), "reach", p, replay_fn, sig)
        elif type(r.exc).__name__ == "InputOutsideDomain":
            n_rej += 1
            jr["exception_paths"] += 1
            handle(jr, R, C.prove(R, solver, pname + "/rejected=>out-of-domain", tm.not_(all_in), [condx], timeout), "rejects-in-domain", p, replay_fn, sig)
        else:
            jr["exception_paths"] += 1
            en = type(r.exc).__name__
            handle(jr, R, C.prove(R, solver, pname + "/no-%s-in-domain" % en, tm.not_(all_in), [condx], timeout), "fails-in-domain:" + en, p, replay_fn, sig)
    # both end-points are accepted by some returning path
    if mode == "box":
        conds = [tm.and_(*[sc.expand_quotients(c) for c in r.path.condition()]) for r in results if r.kind == "return"]
        for nm, pt in (("low", dom[0]), ("high", dom[1])):
            o = C.witness(R, solver, "%s/endpoint-%s-accepted" % (name, nm), [tm.eq(xs[0], pt), tm.or_(*conds)] if conds else [tm.FALSE], timeout)
            handle(jr, R, o, "endpoint-rejected", None, replay_fn, sig)
    if len(jr["samples"]) < 1:
        jr["samples"].append({"kernel": name, "paths": [{"kind": r.kind if r.kind != "raise" else type(r.exc).__name__, "cond": r.path.describe()[:4]} for r in results[:6]]})
    solver.close()
    return jr


def replay_spline(kind, K, mode, inverse, relation, leaves):
    res = {"reproduced": False}
    x, params, bx = SK.real_args(kind, K, mode, leaves)
    if mode == "tails":
        lo, hi = -math.inf, math.inf
    else:
        lo, hi = (bx.get("bottom", 0.0), bx.get("top", 1.0)) if inverse else (bx.get("left", 0.0), bx.get("right", 1.0))
    xv = float(x[0])
    inside = lo <= xv <= hi
    try:
        y, lad = SK.real_call(kind, mode, x, params, bx, inverse)
        finite = bool(torch.isfinite(y).all() and torch.isfinite(lad).all())
        res.update({"x": xv, "inside": inside, "returned": True, "finite": finite, "y": float(y[0]), "lad": float(lad[0])})
        if relation == "accepts-out-of-domain":
            res["reproduced"] = not inside
        elif relation.startswith("obligation"):
            res["reproduced"] = inside and not finite
    except Exception as e:  # noqa
        en = type(e).__name__
        res.update({"x": xv, "inside": inside, "exception": "%s: %s" % (en, e)})
        if relation == "rejects-in-domain":
            res["reproduced"] = inside and en == "InputOutsideDomain"
        elif relation.startswith("fails-in-domain") or relation.startswith("obligation"):
            res["reproduced"] = inside and en != "InputOutsideDomain"
    return res


# ---- IEEE mode ----------------------------------------------------------------------------------

def job_fp(cfg):
    """searchsorted behind the inside-interval mask of the unconstrained splines, on IEEE scalars."""
    K, prec, scenario = cfg["K"], cfg["prec"], cfg["scenario"]
    timeout = cfg["timeout"]
    R = sc.new_registry()
    solver = smt.Z3Proc()
    F = lambda v: sc.FS(tm.fconst(v, prec))  # noqa
    h = {}

    def fn():
        B = sc.fp_var("B", prec)
        x = sc.fp_var("x", prec)
        ks = [sc.fp_var("k%d" % i, prec) for i in range(1, K)]
        big = 1e30 if prec == "F32" else 1e300
        explore.assume((B > F(0.0)).t)
        explore.assume((B < F(big)).t)
        if "Bmax" in cfg:
            explore.assume((B < F(cfg["Bmax"])).t)
        if "Bmin" in cfg:
            explore.assume((B >= F(cfg["Bmin"])).t)
        if scenario == "tails":
            lo, hi = -B, B  # cumwidths[..., 0] = -tail_bound, cumwidths[..., -1] = tail_bound (pinned)
        elif scenario == "anybox":
            # a box [L, L + B'] anywhere on the line: both end-points free, of any sign (upper end-point may be <= 0)
            lo = sc.fp_var("L", prec)
            hi = sc.fp_var("H", prec)
            explore.assume((lo > F(-big)).t)
            explore.assume((hi < F(big)).t)
            explore.assume((lo < hi).t)
        else:
            lo, hi = F(0.0), B  # a box [0, B]
        knots = [lo] + ks + [hi]
        for a, b in zip(knots[:-1], knots[1:]):
            explore.assume((a <= b).t)
        xs = Sym(_obj(np.array([x], dtype=object)))
        # the real inside-interval mask of the unconstrained splines / the real domain check of the bounded ones
        inside = (xs >= lo) & (xs <= hi)
        explore.assume(inside.a[0].t)
        h.update(B=B, x=x)
        kn = Sym(_obj(np.array([knots], dtype=object)))
        return torchutils.searchsorted(kn, xs)

    ex = explore.Explorer(R, solver, decide_timeout=20.0)
    results = ex.explore(fn)
    kernel = "searchsorted/ieee"
    jr = C01.new_jr(kernel)
    jr["paths"] = len(results)
    jr["prune_queries"] = ex.stats["prune_queries"]
    sig = {"prec": prec, "scenario": scenario, "K": K, "Bmax": cfg.get("Bmax"), "Bmin": cfg.get("Bmin")}
    name = "%s/%s/%s/K=%d/B<%s" % (kernel, prec, scenario, K, cfg.get("Bmax"))
    for i, r in enumerate(results):
        pname = "%s/path%d" % (name, i)
        if r.kind != "return":
            jr["inconclusive"].append({"path": r.path.describe()[-4:], "unexpected": str(r.exc)})
            continue
        idx = int(r.value.a[0].concrete())
        ok = 0 <= idx <= K - 1
        st, model, secs, _ = C.check_sat(R, solver, r.path.condition(), timeout)
        if ok:
            jr["outcomes"].append({"name": pname + "/index=%d" % idx, "kind": "twin", "status": st, "s": round(secs, 3), "expect": "sat"})
            if st != "sat":
                jr["inconclusive"].append({"query": pname, "status": st})
            continue
        # a feasible path that returns an index outside [0, K-1]
        jr["outcomes"].append({"name": pname + "/index=%d-infeasible" % idx, "kind": "goal", "status": "unsat" if st == "unsat" else st, "s": round(secs, 3), "expect": "unsat"})
        if st == "unsat":
            continue
        if st != "sat":
            jr["inconclusive"].append({"query": pname, "status": st})
            continue
        leaves = {k.args[0]: float(v) for k, v in (model or {}).items() if k.op == "var"}
        rep = replay_fp(prec, scenario, K, leaves)
        payload = {"property": PROP, "kernel": kernel, "relation": "bin-index-out-of-range", "signature": sig, "leaves": leaves, "path": r.path.describe(), "replay_result": rep,
                   "replay_call": {"fn": "harness.C17:replay_fp", "args": {"prec": prec, "scenario": scenario, "K": K, "leaves": leaves}}}
        if rep.get("reproduced"):
            fn_ = "searchsorted_%s_%s_K%d" % (prec, scenario, K)
            jr["violations"].append({"kernel": kernel, "relation": "bin-index-out-of-range", "signature": {"prec": prec, "scenario": scenario}, "replay": C.write_replay(PROP, fn_, payload), "detail": rep})
        else:
            jr["inconclusive"].append({"query": pname, "why": "IEEE model did not reproduce", "leaves": leaves, "replay": rep})
    if len(jr["samples"]) < 1:
        jr["samples"].append({"kernel": name, "paths": [r.path.describe()[-3:] for r in results[:4]]})
    solver.close()
    return jr


class _StopAfterCheck(Exception):
    pass


class _Stop:
    """stands for the parameter tensors: the first use ends the run (everything before it is the domain check)."""

    def __getattr__(self, name):
        raise _StopAfterCheck(name)

    @classmethod
    def __torch_function__(cls, func, types, args=(), kwargs=None):
        raise _StopAfterCheck(getattr(func, "__name__", "torch function"))


def job_fp_domain(cfg):
    """The domain check of the bounded splines on IEEE scalars: for every finite float input, box and direction, a value
    outside the (closed) domain interval never gets past the check - in floating point, where  (x-left)/(right-left) > 1
    and  x > right  are different predicates."""
    kind, inverse, prec = cfg["kind"], cfg["inverse"], cfg["prec"]
    timeout = cfg["timeout"]
    R = sc.new_registry()
    solver = smt.Z3Proc()
    F = lambda v: sc.FS(tm.fconst(v, prec))  # noqa
    big = 1e30 if prec == "F32" else 1e300
    h = {}

    def fn():
        x = sc.fp_var("x", prec)
        names = ("left", "right", "bottom", "top")
        bx = {n: sc.fp_var(n, prec) for n in names}
        for v in list(bx.values()) + [x]:
            explore.assume((v > F(-big)).t)
            explore.assume((v < F(big)).t)
        explore.assume((bx["left"] < bx["right"]).t)
        explore.assume((bx["bottom"] < bx["top"]).t)
        h.update(x=x, **bx)
        xs = Sym(_obj(np.array([x], dtype=object)))
        params = {nm: _Stop() for nm in SK.param_shapes(kind, 2, "box")}
        box = {n: Sym(_obj(np.array(v, dtype=object))) for n, v in bx.items()}
        return SK.call(kind, "box", xs, params, box, inverse=inverse)

    ex = explore.Explorer(R, solver, decide_timeout=20.0, max_paths=64)
    results = ex.explore(fn)
    kernel = "%s_spline/domain-check/ieee" % kind
    jr = C01.new_jr(kernel)
    jr["paths"] = len(results)
    jr["prune_queries"] = ex.stats["prune_queries"]
    name = "%s/%s/%s" % (kernel, prec, "inverse" if inverse else "forward")
    lo, hi = (h["bottom"], h["top"]) if inverse else (h["left"], h["right"])
    outside = tm.or_((h["x"] < lo).t, (h["x"] > hi).t)
    n_acc = n_rej = 0
    for i, r in enumerate(results):
        pname = "%s/path%d" % (name, i)
        cond = r.path.condition()
        if r.kind == "raise" and isinstance(r.exc, _StopAfterCheck):
            n_acc += 1
            st, model, secs, _ = C.check_sat(R, solver, cond + [outside], timeout)
            jr["outcomes"].append({"name": pname + "/accepted-implies-inside", "kind": "goal", "status": st, "s": round(secs, 3), "expect": "unsat"})
            if st == "unsat":
                continue
            if st != "sat":
                jr["inconclusive"].append({"query": pname, "status": st})
                continue
            leaves = {k.args[0]: float(v) for k, v in (model or {}).items() if k.op == "var"}
            call = {"kind": kind, "inverse": inverse, "prec": prec, "leaves": leaves}
            rep = replay_fp_domain(**call)
            payload = {"property": PROP, "kernel": kernel, "relation": "outside-value-accepted", "signature": {"kind": kind, "prec": prec}, "leaves": leaves, "replay_result": rep, "replay_call": {"fn": "harness.C17:replay_fp_domain", "args": call}}
            if rep.get("reproduced"):
                jr["violations"].append({"kernel": kernel, "relation": "outside-value-accepted", "signature": {"kind": kind, "prec": prec}, "replay": C.write_replay(PROP, "domain_%s_%s_%s" % (kind, prec, "inv" if inverse else "fwd"), payload), "detail": rep})
            else:
                jr["inconclusive"].append({"query": pname, "why": "IEEE model did not reproduce", "leaves": leaves, "replay": rep})
        elif r.kind == "raise" and type(r.exc).__name__ == "InputOutsideDomain":
            n_rej += 1
            # the rejection is legitimate: the value is outside (twin: the path is reachable)
            st, model, secs, _ = C.check_sat(R, solver, cond + [tm.not_(outside)], timeout)
            jr["outcomes"].append({"name": pname + "/rejected-implies-outside", "kind": "goal", "status": st, "s": round(secs, 3), "expect": "unsat"})
            if st == "sat":
                leaves = {k.args[0]: float(v) for k, v in (model or {}).items() if k.op == "var"}
                call = {"kind": kind, "inverse": inverse, "prec": prec, "leaves": leaves}
                rep = replay_fp_domain(**call)
                payload = {"property": PROP, "kernel": kernel, "relation": "inside-value-rejected", "signature": {"kind": kind, "prec": prec}, "leaves": leaves, "replay_result": rep, "replay_call": {"fn": "harness.C17:replay_fp_domain", "args": call}}
                if rep.get("reproduced"):
                    jr["violations"].append({"kernel": kernel, "relation": "inside-value-rejected", "signature": {"kind": kind, "prec": prec}, "replay": C.write_replay(PROP, "domain_rej_%s_%s_%s" % (kind, prec, "inv" if inverse else "fwd"), payload), "detail": rep})
                else:
                    jr["inconclusive"].append({"query": pname, "why": "IEEE model did not reproduce", "leaves": leaves, "replay": rep})
            elif st != "unsat":
                jr["inconclusive"].append({"query": pname, "status": st})
            st2, _, secs2, _ = C.check_sat(R, solver, cond, timeout)
            jr["outcomes"].append({"name": pname + "/reach", "kind": "twin", "status": st2, "s": round(secs2, 3), "expect": "sat"})
        else:
            jr["inconclusive"].append({"query": pname, "unexpected": "%s: %s" % (r.kind, r.exc)})
    if not n_acc or not n_rej:
        jr["inconclusive"].append({"query": name, "why": "expected accepting and rejecting paths, got %d / %d" % (n_acc, n_rej)})
    jr["samples"].append({"kernel": name, "paths": len(results), "accepted": n_acc, "rejected": n_rej})
    solver.close()
    return jr


def replay_fp_domain(kind, inverse, prec, leaves):
    """real function, real dtype: an outside value must raise InputOutsideDomain, an inside value must not."""
    res = {"reproduced": False}
    dt = torch.float32 if prec == "F32" else torch.float64
    try:
        from nflows.transforms.splines.rational_quadratic import InputOutsideDomain as _IOD  # noqa
    except Exception:  # noqa
        _IOD = None
    from nflows.utils import torchutils as _tu

    x = torch.tensor([leaves["x"]], dtype=dt)
    bx = {n: float(torch.tensor(leaves[n], dtype=dt)) for n in ("left", "right", "bottom", "top")}
    lo, hi = (bx["bottom"], bx["top"]) if inverse else (bx["left"], bx["right"])
    outside = bool(float(x[0]) < lo or float(x[0]) > hi)
    params = {nm: torch.zeros(1, sz, dtype=dt) for nm, sz in SK.param_shapes(kind, 2, "box").items()}
    res.update({"x": float(x[0]), "domain": [lo, hi], "outside": outside})
    try:
        y, lad = SK.real_call(kind, "box", x, params, bx, inverse)
        res["outcome"] = "returned %r" % float(y[0])
        res["reproduced"] = outside
    except Exception as e:  # noqa
        res["outcome"] = "%s: %s" % (type(e).__name__, e)
        is_dom = type(e).__name__ == "InputOutsideDomain"
        res["reproduced"] = (outside and not is_dom) or (not outside and is_dom)
    return res


def replay_fp(prec, scenario, K, leaves):
    """Replays through the public API: an unconstrained spline with tail_bound = B evaluated at x (tails), or
    the bounded spline on the box [0, B] (box); reproduced = an exception other than InputOutsideDomain
    or a non-finite result for an input inside the closed interval."""
    dtype = torch.float32 if prec == "F32" else torch.float64
    B, x = float(leaves.get("B", 1.0)), float(leaves.get("x", 0.0))
    res = {"reproduced": False, "B": B, "x": x, "cases": []}
    from nflows.transforms.splines import rational_quadratic as rq, quadratic as qd, cubic as cb, linear as ln

    xin = torch.tensor([x], dtype=dtype)
    z = lambda n: torch.zeros(1, n, dtype=dtype)  # noqa
    trials = []
    if scenario == "tails":
        trials = [
            ("unconstrained_rational_quadratic_spline", lambda: rq.unconstrained_rational_quadratic_spline(xin, z(K), z(K), z(K - 1), tail_bound=B)),
            ("unconstrained_cubic_spline", lambda: cb.unconstrained_cubic_spline(xin, z(K), z(K), z(1), z(1), tail_bound=B)),
        ]
        if K >= 2:
            trials.append(("unconstrained_quadratic_spline", lambda: qd.unconstrained_quadratic_spline(xin, z(K), z(K - 1), tail_bound=B)))
    elif scenario == "anybox":
        L, H = float(leaves.get("L", 0.0)), float(leaves.get("H", 1.0))
        res["box"] = [L, H]
        trials = [
            ("rational_quadratic_spline", lambda: rq.rational_quadratic_spline(xin, z(K), z(K), z(K + 1), left=L, right=H, bottom=L, top=H)),
        ]
    else:
        trials = [
            ("rational_quadratic_spline", lambda: rq.rational_quadratic_spline(xin, z(K), z(K), z(K + 1), left=0.0, right=B, bottom=0.0, top=B)),
        ]
    for nm, f in trials:
        try:
            y, lad = f()
            fin = bool(torch.isfinite(y).all() and torch.isfinite(lad).all())
            res["cases"].append({"fn": nm, "finite": fin})
            if not fin:
                res["reproduced"] = True
        except Exception as e:  # noqa
            res["cases"].append({"fn": nm, "exception": "%s: %s" % (type(e).__name__, str(e)[:120])})
            if type(e).__name__ != "InputOutsideDomain":
                res["reproduced"] = True
    return res


def replay_entry(kernel, signature, relation, leaves):
    if kernel in NONLIN:
        return replay_nonlin(kernel, relation, leaves)
    kind, mode = kernel.split("_spline/")
    return replay_spline(kind, signature["K"], mode, signature["dir"] == "inverse", relation, leaves)


def job(cfg):
    if cfg["type"] == "nonlin":
        return job_nonlin(cfg)
    if cfg["type"] == "fp":
        return job_fp(cfg)
    if cfg["type"] == "fpdomain":
        return job_fp_domain(cfg)
    return job_spline(cfg)


def configs(tier):
    t = 60 if tier == "quick" else 600
    cfgs = [{"type": "nonlin", "name": n, "timeout": t} for n in NONLIN]
    Ks = (1, 2) if tier == "quick" else (1, 2, 3)
    for kind in SK.KINDS:
        for K in Ks:
            for mode in ("box", "tails"):
                if kind == "quadratic" and mode == "tails" and K == 1:
                    continue
                for inverse in (False, True):
                    if kind == "cubic" and inverse:
                        continue  # masked multi-branch root selection: see DESIGN (cubic inverse is outside the solver claims)
                    cfgs.append({"type": "spline", "kind": kind, "K": K, "mode": mode, "box": "sym", "inverse": inverse, "timeout": t if K < 3 else 300, "bughunt": K == 3 and kind != "linear"})
    for prec in ("F32", "F64"):
        for scenario in ("tails", "box", "anybox"):
            for K in ((1, 2) if tier == "quick" else (1, 2, 3, 4)):
                cfgs.append({"type": "fp", "prec": prec, "scenario": scenario, "K": K, "timeout": t})
                # below the absorption threshold of the fixed 1e-6 the index is in range
                cfgs.append({"type": "fp", "prec": prec, "scenario": scenario, "K": K, "timeout": t, "Bmax": 16.0 if prec == "F32" else 4.0e9})
    # the domain check itself in IEEE arithmetic (every finite box, value and direction)
    for prec in (("F32",) if tier == "quick" else ("F32", "F64")):
        for kind in SK.KINDS:
            for inverse in (False, True):
                cfgs.append({"type": "fpdomain", "prec": prec, "kind": kind, "inverse": inverse, "timeout": t})
    return cfgs


def main():
    rep = C.Report(PROP)
    cfgs = configs(C.TIER)
    rep.functions = C.source_hash(SK.ENCODED + [NL.Exp, NL.Tanh, NL.Sigmoid, NL.Logit, NL.CauchyCDF])
    rep.bounds = {
        "real_mode": "Exp/Tanh/Sigmoid/Logit/CauchyCDF restricted directions on a 1x2 input; four spline families, bins %s, both directions, symbolic box and tail bound, one input" % sorted({c["K"] for c in cfgs if c["type"] == "spline"}),
        "ieee_mode": "searchsorted behind the closed inside-interval test, float32 and float64, K in %s, all sorted knots, every bound magnitude up to 1e30 / 1e300 and separately below 16 / 4e9" % sorted({c["K"] for c in cfgs if c["type"] == "fp"}),
        "per_query_timeout_s": cfgs[0]["timeout"],
    }
    rep.assumptions = [
        "real mode is exact arithmetic; the floating-point claims are the bin-index range and the domain check (an outside value never passes, an inside value is never rejected) of the IEEE mode",
        "CauchyCDF.inverse accepts the closed interval [0,1] although tan(pi(x-1/2)) is unbounded at the end-points: the property's list of restricted transforms does not include it; it is checked for accept/reject consistency only",
        "the normalisation (x-left)/(right-left) of the linear/quadratic/cubic splines is not re-done in IEEE arithmetic (a single division was undecided at float32 in the design probes)",
        "cubic_spline(inverse=True) computes all three root branches on every lane and overwrites by masks (intermediate divisions by a == 0 are discarded lanes) and selects roots trigonometrically: its path classification is outside the claim",
    ]
    rep.stubs = ["torch.linspace exact", "torch.as_tensor pass-through"]
    for jr in C.run_jobs(job, cfgs):
        rep.add_job(jr)
    sys.exit(rep.finish("path classification of the real domain checks over a fully symbolic input (QF_NRA) plus the IEEE (QF_FP) execution of the real searchsorted behind the closed-interval test"))


if __name__ == "__main__":
    main()
