"""C05 - base distributions are normalised, sample their own density, report true means.

  Bernoulli     sum over x in {0,1}^D of exp(log_prob(x | c)) == 1 as an identity in the logits (exact summation by
                the solver, D <= 3); mean() == sigmoid(logits); a sample is 1 exactly when rand < sigmoid(logit)
  normals       log_prob of StandardNormal / DiagonalNormal / ConditionalDiagonalNormal equals the reference
                -1/2 sum ((x-mu)/sigma)^2 - sum log sigma - (D/2) log(2 pi): the variable part is a polynomial identity
                decided by z3, the constant is compared numerically with (D/2) log(2 pi) (named assumption: the Gaussian
                integral); sampling structure: log_prob(mu + sigma z | c) == log N(z; 0, I) - sum log sigma;
                mean() returns the mean parameter with the documented shape
  MADE mixture  exp(log_prob) == prod_d sum_k softmax(logits)_dk N(x_d; mu_dk, sigma_dk) with the [N, F, M, 3] layout
                the network output is reshaped to (conditioner replaced by the autoregressive stub of C06)
  KDE           gaussian_kde_log_eval's constant and quadratic form against the Gaussian-mixture reference
uniform.py delegates to torch.distributions (not in the repository): outside the claim.
"""
import itertools
import math
import sys

import numpy as np
import torch

from harness import common as C
from harness import C01
from harness import transformkit as TK
from symtorch import term as tm, scalars as sc, smt, explore, stubs, poly
from symtorch.scalars import S
from symtorch.tensor import Sym, _obj, CFG

from nflows.distributions import normal as DN, discrete as DD
from nflows.nn.nde import made as made_n
from nflows.utils import torchutils

PROP = "C05"
LOG_2PI = math.log(2 * math.pi)


class Rec:
    def __init__(self, jr, R, solver, timeout):
        self.jr, self.R, self.solver, self.timeout = jr, R, solver, timeout

    def identity(self, name, a, b, asm=()):
        g, size = poly.eq_goal_reparam(self.R, a, b)
        o = C.prove(self.R, self.solver, name, g, [list(asm)], self.timeout)
        self.jr["outcomes"].append(o.as_dict())
        if o.status == "unsat":
            return True
        if o.status == "sat":
            self.jr.setdefault("failed", []).append(name)
        else:
            self.jr["inconclusive"].append({"query": name, "status": o.status})
        return False

    def check(self, name, ok, detail=""):
        self.jr["outcomes"].append({"name": name, "kind": "goal", "status": "unsat" if ok else "sat", "s": 0.0, "expect": "unsat", "detail": detail})
        if not ok:
            self.jr.setdefault("failed", []).append(name + ": " + detail)
        return ok


def split_const(t):
    """t == const + rest (rest without constant part)"""
    c0, items = tm.linear_form(t)
    rest = tm.add(*[tm.scale(c, a) for c, a in items]) if items else tm.ZERO
    # numerically enclosed constants (log / exp of constants) also count as constant
    const = float(c0)
    keep = []
    for c, a in items:
        if a.op == "app" and a.args[0] in ("log", "exp", "softplus") and isinstance(a.args[1], tm.T) and a.args[1].op == "const":
            const += float(c) * tm.evaluate(a, {})
        else:
            keep.append(tm.scale(c, a))
    return const, (tm.add(*keep) if keep else tm.ZERO)


def job_bernoulli(cfg):
    D = cfg["D"]
    R = sc.new_registry()
    solver = smt.Z3Proc()
    jr = C01.new_jr("ConditionalIndependentBernoulli")
    rec = Rec(jr, R, solver, cfg["timeout"])
    CFG.simplex_shortcut = False
    sc.BOOL_TO_NUM[0] = "ite"
    try:
        with stubs.torch_patches():
            R.begin_run()
            d = DD.ConditionalIndependentBernoulli([D])
            logits = stubs.named_tensor("ctx", (1, D))
            total = tm.ZERO
            for bits in itertools.product((0.0, 1.0), repeat=D):
                x = torch.tensor([list(bits)])
                lp = d.log_prob(x, context=logits)
                total = tm.add(total, sc.t_exp(lp.a[0].t))
            rec.identity("Bernoulli/D=%d/sum_x exp(log_prob(x|c)) == 1" % D, total, tm.ONE)
            mean = d.mean(context=logits)
            ok = tuple(mean.shape) == (1, D) and all(m.t is sc.t_sigmoid(l.t) for m, l in zip(mean.a.reshape(-1), logits.a.reshape(-1)))
            rec.check("Bernoulli/D=%d/mean()==sigmoid(logits),shape" % D, ok, str(tuple(mean.shape)))
            # expectation of the density equals mean(): sum_x x_d p(x)
            for dd in range(D):
                ex = tm.ZERO
                for bits in itertools.product((0.0, 1.0), repeat=D):
                    if bits[dd] == 1.0:
                        lp = d.log_prob(torch.tensor([list(bits)]), context=logits)
                        ex = tm.add(ex, sc.t_exp(lp.a[0].t))
                rec.identity("Bernoulli/D=%d/E[x_%d]==mean()" % (D, dd), ex, mean.a[0, dd].t)
            s = d.sample(2, context=logits)
            ok = tuple(s.shape) == (1, 2, D)
            for j in range(2):
                for dd in range(D):
                    t = s.a[0, j, dd].t
                    # ite(rand < sigmoid(logit), 1, 0)
                    ok = ok and t.op == "ite" and t.args[1] is tm.ONE and t.args[2] is tm.ZERO and logits.a[0, dd].t in tm.walk([t.args[0]]) and any(v.args[0].startswith("rand") for v in tm.free_vars(t.args[0]))
            rec.check("Bernoulli/D=%d/sample==[rand<sigmoid(logit)]" % D, ok)
    finally:
        CFG.simplex_shortcut = True
        sc.BOOL_TO_NUM[0] = "fork"
    jr["paths"] = 1
    jr["samples"].append({"distribution": "Bernoulli", "D": D, "claim": "sum over the 2^D outcomes of exp(log_prob) == 1"})
    finish(jr, "ConditionalIndependentBernoulli", {"D": D})
    solver.close()
    return jr


def normal_reference(x, mu, logsig, D):
    q = tm.add(*[tm.mul(tm.mul(tm.sub(xx, m), sc.t_exp(tm.neg(ls))), tm.mul(tm.sub(xx, m), sc.t_exp(tm.neg(ls)))) for xx, m, ls in zip(x, mu, logsig)])
    return tm.sub(tm.scale(tm.read_float(-0.5), q), tm.add(*logsig) if logsig else tm.ZERO)


def job_normal(cfg):
    kind, shape = cfg["kind"], tuple(cfg["shape"])
    D = int(np.prod(shape))
    R = sc.new_registry()
    solver = smt.Z3Proc()
    jr = C01.new_jr(kind)
    rec = Rec(jr, R, solver, cfg["timeout"])
    tag = "%s/shape=%s" % (kind, list(shape))
    with stubs.torch_patches():
        R.begin_run()
        x = stubs.named_tensor("x", (2,) + shape)
        ctx = None
        if kind == "StandardNormal":
            d = DN.StandardNormal(list(shape))
            mus = [[tm.ZERO] * D] * 2
            lss = [[tm.ZERO] * D] * 2
        elif kind == "DiagonalNormal":
            d = DN.DiagonalNormal(list(shape))
            TK.symbolize(d)
            mus = [[s.t for s in d.mean_.a.reshape(-1)]] * 2
            lss = [[s.t for s in d.log_std_.a.reshape(-1)]] * 2
        else:
            d = DN.ConditionalDiagonalNormal(list(shape))
            ctx = stubs.named_tensor("ctx", (2, 2 * D))
            mus = [[s.t for s in ctx.a[i, :D]] for i in range(2)]
            lss = [[s.t for s in ctx.a[i, D:]] for i in range(2)]
        lp = d.log_prob(x, context=ctx)
        rec.check(tag + "/log_prob-shape", tuple(lp.shape) == (2,), str(tuple(lp.shape)))
        for i in range(min(2, lp.a.reshape(-1).shape[0])):
            const, rest = split_const(lp.a[i].t)
            ref = normal_reference([s.t for s in x.a[i].reshape(-1)], mus[i], lss[i], D)
            rec.identity(tag + "/row%d/variable-part==-1/2 sum((x-mu)/sigma)^2 - sum log sigma" % i, rest, ref)
            rec.check(tag + "/row%d/normalising-constant==-(D/2)log(2pi)" % i, abs(const + 0.5 * D * LOG_2PI) < 1e-9, "constant %.12f, expected %.12f" % (const, -0.5 * D * LOG_2PI))
        # mean()
        try:
            mean = d.mean(context=ctx)
            if not isinstance(mean, (Sym, torch.Tensor)):
                rec.check(tag + "/mean()-returns-a-tensor", False, "mean() returned %s" % type(mean).__name__)
            else:
                ms = [s.t for s in (mean.a.reshape(-1) if isinstance(mean, Sym) else Sym(mean).a.reshape(-1))]
                want_shape = ((2,) + shape) if ctx is not None else shape
                flat = [t for row in (mus if ctx is not None else mus[:1]) for t in row]
                rec.check(tag + "/mean()==mean-parameter,shape", tuple(mean.shape) == tuple(want_shape) and all(a is b for a, b in zip(ms, flat)), "shape %s" % (tuple(mean.shape),))
        except Exception as e:  # noqa
            rec.check(tag + "/mean()-returns-a-tensor", False, "%s: %s" % (type(e).__name__, e))
        # samples follow the density: log_prob(mu + sigma z) == log N(z) - sum log sigma
        if kind == "ConditionalDiagonalNormal":
            ndraw = 2
            s = d.sample(ndraw, context=ctx)
            rec.check(tag + "/sample-shape", tuple(s.shape) == (2, ndraw) + shape, str(tuple(s.shape)))
            flat = Sym(s.a.reshape((2 * ndraw,) + shape))
            from nflows.utils import torchutils as _tu

            lps = d.log_prob(flat, context=_tu.repeat_rows(ctx, ndraw))
            for i in range(2):
                for j in range(ndraw):
                    elems = s.a[i, j].reshape(-1)
                    zs = sorted({v for e in elems for v in tm.free_vars(e.t) if v.args[0].startswith("randn")}, key=lambda v: v.args[0])
                    # the draw for context row i must be built from row i's parameters only
                    rows = {int(v.args[0].split("_")[1]) for e in elems for v in tm.free_vars(e.t) if v.args[0].startswith("ctx_")}
                    rec.check(tag + "/sample[%d,%d]-uses-its-own-context-row" % (i, j), rows == {i}, "rows %s" % sorted(rows))
                    const, rest = split_const(lps.a[i * ndraw + j].t)
                    ref = tm.sub(tm.scale(tm.read_float(-0.5), tm.add(*[tm.mul(z, z) for z in zs])), tm.add(*lss[i]))
                    rec.identity(tag + "/sample[%d,%d]/log_prob(mu+sigma*z)==logN(z)-sum log sigma" % (i, j), rest, ref)
        if kind == "StandardNormal":
            s = d.sample(3)
            rec.check(tag + "/sample-is-plain-randn", tuple(s.shape) == (3,) + shape and all(e.t.op == "var" and e.t.args[0].startswith("randn") for e in s.a.reshape(-1)))
    jr["paths"] = 1
    jr["samples"].append({"distribution": tag, "log_prob[0]": tm.pretty(lp.a.reshape(-1)[0].t)[:200]})
    finish(jr, kind, {"shape": list(shape)})
    solver.close()
    return jr


def job_mog(cfg):
    Fn, M = cfg["F"], cfg["M"]
    R = sc.new_registry()
    solver = smt.Z3Proc()
    jr = C01.new_jr("MixtureOfGaussiansMADE")
    rec = Rec(jr, R, solver, cfg["timeout"])
    tag = "MADEMoG/F=%d,M=%d" % (Fn, M)
    CFG.simplex_shortcut = False
    try:
        with stubs.torch_patches():
            R.begin_run()
            torch.manual_seed(0)
            net = made_n.MixtureOfGaussiansMADE(Fn, 4, context_features=None, num_blocks=1, num_mixture_components=M, custom_initialization=False)
            net.eval()
            # the conditioner output, in the order MADE produces it (feature-major, then multiplier): free symbols
            raw = stubs.named_tensor("out", (1, Fn * 3 * M))
            net.forward = lambda inputs, context=None: raw
            x = stubs.named_tensor("x", (1, Fn))
            lp = net.log_prob(x)
            eps = tm.const(tm.read_float(net.epsilon))
            prod = tm.ONE
            const = 0.0
            for d_ in range(Fn):
                comps = []
                logits = [raw.a[0, d_ * 3 * M + k * 3 + 0].t for k in range(M)]
                es = [sc.t_exp(l) for l in logits]
                tot = tm.add(*es)
                for k in range(M):
                    mu = raw.a[0, d_ * 3 * M + k * 3 + 1].t
                    sd = tm.add(sc.t_softplus(raw.a[0, d_ * 3 * M + k * 3 + 2].t), eps)
                    z = tm.div(tm.sub(x.a[0, d_].t, mu), sd)
                    dens = tm.div(sc.t_exp(tm.scale(tm.read_float(-0.5), tm.mul(z, z))), sd)  # times (2 pi)^-1/2, accounted in the constant
                    comps.append(tm.mul(tm.div(es[k], tot), dens))
                prod = tm.mul(prod, tm.add(*comps))
            # exp(log_prob) == prod * (2 pi)^(-F/2): the code adds -0.5*log(2 pi) inside every component
            E = sc.t_exp(lp.a[0].t)
            c = tm.app("exp", [tm.const(tm.read_float(-0.5 * LOG_2PI))])
            encl = [a for a in tm.atoms(E) if a.args[0] == "exp" and isinstance(a.args[1], tm.T) and a.args[1].op == "const"]
            # one enclosed constant exp(-0.5*log(2 pi)), occurring once per feature (the identity below decides the power)
            # (the engine merges the per-feature constants into one atom when there is a single component, and keeps
            # exp(-0.5*log(2 pi)) per feature otherwise; the power is fixed here and *decided* by the identity below)
            pw = 0
            if len(encl) == 1:
                arg = float(encl[0].args[1].args[0])
                pw = int(round((-0.5 * Fn * LOG_2PI) / arg)) if arg else 0
            kval = (tm.evaluate(encl[0], {}) ** pw) if pw >= 1 else float("nan")
            rec.check(tag + "/gaussian-constant==(2pi)^(-F/2)", pw >= 1 and abs(kval - (2 * math.pi) ** (-0.5 * Fn)) < 1e-9, str(kval))
            ref = tm.mul(prod, *[tm.power(a, max(pw, 1)) for a in encl])
            rec.identity(tag + "/exp(log_prob)==prod_d sum_k pi_dk N(x_d;mu_dk,sigma_dk) [N,F,M,3 layout]", E, ref)
    finally:
        CFG.simplex_shortcut = True
    jr["paths"] = 1
    jr["samples"].append({"distribution": tag, "layout": "unit = feature*3M + component*3 + {logit, mean, unconstrained std}"})
    finish(jr, "MixtureOfGaussiansMADE", {"F": Fn, "M": M})
    solver.close()
    return jr


class _Dists:
    """`distributions` as seen by MixtureOfGaussiansMADE.sample: Categorical(logits).sample((1,)) returns the component
    indices the job fixes (every choice is one job), everything else is real torch.distributions."""

    def __init__(self, picks):
        self.picks = list(picks)
        self.calls = 0

    def Categorical(self, logits=None, probs=None):
        outer = self

        class _C:
            def sample(self_, shape=()):
                k = outer.picks[outer.calls]
                outer.calls += 1
                return torch.full(tuple(shape) + (logits.shape[0],), k, dtype=torch.long)

        return _C()


def replay_mog_sample(F, M):
    """real sampler against the real density, narrow components: the spread of the draws of feature 0 must be the
    standard deviation the density uses (softplus(u) + epsilon)"""
    res = {"reproduced": False}
    try:
        torch.manual_seed(0)
        net = made_n.MixtureOfGaussiansMADE(F, 8, num_blocks=1, num_mixture_components=M)
        net.eval()
        worst = 0.0
        for u in (-9.0, -4.0, 0.5):
            out = torch.zeros(1, F, M, 3)
            out[..., 0] = -30.0
            out[:, :, 0, 0] = 30.0
            out[..., 2] = u
            flat = out.reshape(1, -1)
            net.forward = lambda inputs, context=None: flat.expand(inputs.shape[0], -1)
            sm = net.sample(4000)
            declared = float(torch.nn.functional.softplus(torch.tensor(u)) + net.epsilon)
            # the density's own scale: exp(log_prob) at the mode of a (nearly) single narrow component is 1/(sqrt(2 pi) sd) per feature
            lp0 = float(net.log_prob(torch.zeros(1, F))) / F
            sd_density = math.exp(-lp0) / math.sqrt(2 * math.pi)
            ratio = float(sm[:, 0].std()) / sd_density
            res["u=%g" % u] = {"sample_std": float(sm[:, 0].std()), "density_std": sd_density, "declared": declared}
            worst = max(worst, abs(ratio - 1))
        res["worst_relative_std_mismatch"] = worst
        res["reproduced"] = worst > 0.1
    except Exception as e:  # noqa
        res["exception"] = "%s: %s" % (type(e).__name__, e)
        res["reproduced"] = True
    return res


def job_mog_sample(cfg):
    """MixtureOfGaussiansMADE.sample: with the conditioner output free per call, the component choice fixed per job and
    torch.randn fresh symbols, the draw of feature d is  mu_{d,k} + z_d * (softplus(u_{d,k}) + epsilon)  - the mean and
    the standard deviation of exactly the component density that log_prob uses (job `mog`), read in the same layout."""
    Fn, M, picks = cfg["F"], cfg["M"], cfg["picks"]
    R = sc.new_registry()
    solver = smt.Z3Proc()
    jr = C01.new_jr("MixtureOfGaussiansMADE.sample")
    rec = Rec(jr, R, solver, cfg["timeout"])
    tag = "MADEMoG.sample/F=%d,M=%d,components=%s" % (Fn, M, list(picks))
    try:
        with stubs.torch_patches():
            R.begin_run()
            torch.manual_seed(0)
            net = made_n.MixtureOfGaussiansMADE(Fn, 4, context_features=None, num_blocks=1, num_mixture_components=M, custom_initialization=False)
            net.eval()
            raws, zs = [], []

            def fwd(inputs, context=None):
                raws.append(stubs.named_tensor("out%d" % len(raws), (1, Fn * 3 * M)))
                return raws[-1]

            net.forward = fwd
            patched_randn = torch.randn

            def randn(*a, **k):
                z = patched_randn(*a, **k)
                zs.append(z)
                return z

            real_zeros = torch.zeros

            def zeros(*size, **kw):
                # the sample buffer the draws are written into: a symbolic zero tensor (in-place writes of symbols)
                if len(size) == 2 and all(isinstance(v, int) for v in size) and "dtype" not in kw:
                    return Sym(_obj(np.zeros(size)))
                return real_zeros(*size, **kw)

            with stubs.patched((torch, "randn", randn), (torch, "zeros", zeros), (made_n, "distributions", _Dists(picks))):
                smp = net.sample(1)
            eps = tm.const(tm.read_float(net.epsilon))
            ok_shape = isinstance(smp, Sym) and tuple(smp.a.shape) == (1, Fn) and len(raws) == Fn and len(zs) == Fn
            rec.check(tag + "/one conditioner pass and one normal draw per feature", ok_shape, "shape %s, %d passes, %d draws" % (getattr(getattr(smp, "a", None), "shape", None), len(raws), len(zs)))
            if ok_shape:
                for d_ in range(Fn):
                    k = picks[d_]
                    mu = raws[d_].a[0, d_ * 3 * M + k * 3 + 1].t
                    sd = tm.add(sc.t_softplus(raws[d_].a[0, d_ * 3 * M + k * 3 + 2].t), eps)
                    ref = tm.add(mu, tm.mul(zs[d_].a.reshape(-1)[0].t, sd))
                    rec.identity(tag + "/x_%d==mu+z*(softplus(u)+eps) of the chosen component" % d_, smp.a[0, d_].t, ref)
    except explore.NotModelled as e:
        jr["inconclusive"].append({"query": tag, "notmodelled": str(e)})
    jr["paths"] = 1
    for f in jr.pop("failed", []):
        with stubs.real_torch():
            rep = replay_mog_sample(Fn, M)
        relation = "sample==mean+noise*std"
        s_ = {"kernel": "MixtureOfGaussiansMADE.sample", "relation": relation, "F": Fn, "M": M}
        payload = {"property": PROP, "kernel": "MixtureOfGaussiansMADE.sample", "relation": relation, "signature": s_, "failed": f, "replay_result": rep, "replay_call": {"fn": "harness.C05:replay_mog_sample", "args": {"F": Fn, "M": M}}}
        if rep.get("reproduced"):
            jr["violations"].append({"kernel": "MixtureOfGaussiansMADE.sample", "relation": relation, "signature": s_, "replay": C.write_replay(PROP, "MixtureOfGaussiansMADE_sample_F%d_M%d" % (Fn, M), payload), "detail": rep})
        else:
            jr["inconclusive"].append({"query": f, "why": "not reproduced numerically", "replay": rep})
        break
    jr["samples"].append({"distribution": tag, "claim": "draw == mean + randn * (softplus(unconstrained std) + epsilon) of the selected component, same layout as log_prob"})
    solver.close()
    return jr


def job_kde(cfg):
    N, D = cfg["N"], cfg["D"]
    R = sc.new_registry()
    solver = smt.Z3Proc()
    jr = C01.new_jr("gaussian_kde_log_eval")
    rec = Rec(jr, R, solver, cfg["timeout"])
    tag = "KDE/N=%d,D=%d" % (N, D)
    with stubs.torch_patches():
        R.begin_run()
        samples = stubs.named_tensor("s", (N, D))
        q = stubs.named_tensor("q", (D,))
        out = torchutils.gaussian_kde_log_eval(samples, q)
        E = sc.t_exp(out.a.reshape(-1)[0].t)
        std = N ** (-1.0 / (D + 4))
        # reference: (1/N) sum_n (2 pi std^2)^(-D/2) exp(-|q - s_n|^2 / (2 std^2))
        encl = [a for a in tm.atoms(E) if a.args[0] == "exp" and isinstance(a.args[1], tm.T) and a.args[1].op == "const"]
        want = (1.0 / N) * (2 * math.pi * std * std) ** (-D / 2.0)
        ok = len(encl) == 1 and abs(tm.evaluate(encl[0], {}) - want) < 1e-9 * want
        rec.check(tag + "/normalising-constant==(1/N)(2 pi std^2)^(-D/2)", ok, "%s vs %.12g" % ([tm.evaluate(a, {}) for a in encl], want))
        # the whole term, evaluated in exact arithmetic at random points, against the Gaussian-mixture reference
        # (the exp arguments are not polynomially normalised by the engine, so this part is an evaluation of the
        # encoded term, not a solver identity; the float32 identity matrix of the source limits it to 1e-5)
        import random as _r

        rng = _r.Random(C.SEED + 5)
        okq = True
        term = out.a.reshape(-1)[0].t
        for _ in range(20):
            env = {v: rng.uniform(-1.5, 1.5) for v in tm.free_vars(term)}
            val = tm.evaluate(term, env, {"root": lambda bb, qq: bb ** (1.0 / qq)})
            ref = math.log(sum(want * math.exp(-0.5 / (std * std) * sum((env[q.a[dd].t] - env[samples.a[n, dd].t]) ** 2 for dd in range(D))) for n in range(N)))
            okq = okq and abs(val - ref) < 1e-5 * max(1.0, abs(ref))
        rec.check(tag + "/term==log-mixture-reference(20 random points, exact evaluation)", okq)
    jr["paths"] = 1
    jr["samples"].append({"kernel": tag})
    finish(jr, "gaussian_kde_log_eval", {"N": N, "D": D})
    solver.close()
    return jr


def finish(jr, kernel, sig):
    for f in jr.pop("failed", []):
        with stubs.real_torch():
            rep = replay(kernel, sig)
        relation = f.split("/")[-1].split(":")[0][:60]
        s = dict(sig, kernel=kernel, relation=relation)
        payload = {"property": PROP, "kernel": kernel, "relation": relation, "signature": s, "failed": f, "replay_result": rep, "replay_call": {"fn": "harness.C05:replay", "args": {"kernel": kernel, "sig": sig}}}
        if rep.get("reproduced"):
            fn = "".join(ch if ch.isalnum() else "_" for ch in "%s_%s" % (kernel, relation))[:100]
            jr["violations"].append({"kernel": kernel, "relation": relation, "signature": s, "replay": C.write_replay(PROP, fn, payload), "detail": rep})
        else:
            jr["inconclusive"].append({"query": f, "why": "not reproduced numerically", "replay": rep})


def replay(kernel, sig):
    """numeric oracle: exact summation (Bernoulli), quadrature in 1-D factors (normals, mixture), mean()."""
    res = {"reproduced": False}
    try:
        torch.manual_seed(0)
        if kernel == "ConditionalIndependentBernoulli":
            D = sig["D"]
            d = DD.ConditionalIndependentBernoulli([D])
            logits = torch.randn(1, D, dtype=torch.float64)
            tot = sum(float(torch.exp(d.log_prob(torch.tensor([list(b)], dtype=torch.float64), context=logits))) for b in itertools.product((0.0, 1.0), repeat=D))
            res["total_probability"] = tot
            res["reproduced"] = abs(tot - 1) > 1e-9
        elif kernel in ("StandardNormal", "DiagonalNormal", "ConditionalDiagonalNormal"):
            shape = tuple(sig["shape"])
            D = int(np.prod(shape))
            if kernel == "StandardNormal":
                d, ctx = DN.StandardNormal(list(shape)), None
            elif kernel == "DiagonalNormal":
                d, ctx = DN.DiagonalNormal(list(shape)), None
                with torch.no_grad():
                    d.mean_.add_(torch.randn_like(d.mean_))
                    d.log_std_.add_(torch.randn_like(d.log_std_) * 0.3)
            else:
                d, ctx = DN.ConditionalDiagonalNormal(list(shape)), torch.randn(1, 2 * D) * 0.5
            # integrate the first coordinate with the others fixed at their mean: must equal the (D-1)-dim marginal const
            grid = torch.linspace(-12, 12, 48001)
            x = torch.zeros(grid.shape[0], D)
            mu = torch.zeros(D) if kernel == "StandardNormal" else (d.mean_.detach().reshape(-1) if kernel == "DiagonalNormal" else ctx[0, :D])
            ls = torch.zeros(D) if kernel == "StandardNormal" else (d.log_std_.detach().reshape(-1) if kernel == "DiagonalNormal" else ctx[0, D:])
            x[:] = mu
            x[:, 0] = grid
            with torch.no_grad():
                lp = d.log_prob(x.reshape((-1,) + shape), context=None if ctx is None else ctx.expand(grid.shape[0], -1))
            integral = float(torch.trapz(torch.exp(lp.double()), grid.double()))
            expect = float(torch.exp(-ls[1:].sum() - 0.5 * (D - 1) * LOG_2PI))
            res["integral_over_first_coordinate"] = integral
            res["expected"] = expect
            bad_mean = False
            try:
                m = d.mean(context=ctx)
                bad_mean = not isinstance(m, torch.Tensor)
            except Exception:
                bad_mean = True
            res["mean_ok"] = not bad_mean
            bad_sampling = False
            if kernel == "ConditionalDiagonalNormal":
                # samples of context row i must follow row i's density: narrow, far-apart rows
                cc = torch.zeros(3, 2 * D)
                cc[:, :D] = torch.tensor([[-100.0], [0.0], [100.0]]).expand(3, D)
                cc[:, D:] = -3.0
                smp = d.sample(40, context=cc).reshape(3, 40, D)
                dev = (smp - cc[:, None, :D]).abs().max()
                res["max_sample_distance_from_own_mean"] = float(dev)
                bad_sampling = float(dev) > 5.0
                # spread: with log_std = 1 / -1 the empirical standard deviation of 4000 draws is e / 1/e within 10 %
                c2 = torch.zeros(2, 2 * D)
                c2[0, D:] = 1.0
                c2[1, D:] = -1.0
                sm2 = d.sample(4000, context=c2).reshape(2, 4000, D)
                ratio = sm2.std(dim=1) / torch.exp(c2[:, D:])
                res["sample_std_over_declared_std"] = [float(ratio.min()), float(ratio.max())]
                bad_sampling = bad_sampling or float((ratio - 1).abs().max()) > 0.1
            res["reproduced"] = abs(integral - expect) > 1e-5 * max(1.0, expect) or bad_mean or bad_sampling
        elif kernel == "MixtureOfGaussiansMADE":
            Fn, M = sig["F"], sig["M"]
            net = made_n.MixtureOfGaussiansMADE(Fn, 8, num_blocks=1, num_mixture_components=M)
            grid = torch.linspace(-30, 30, 6001)
            if Fn == 1:
                with torch.no_grad():
                    lp = net.log_prob(grid[:, None])
                integral = float(torch.trapz(torch.exp(lp.double()), grid.double()))
            else:
                g2 = torch.linspace(-25, 25, 501)
                xx, yy = torch.meshgrid(g2, g2, indexing="ij")
                pts = torch.stack([xx.reshape(-1), yy.reshape(-1)] + [torch.zeros(xx.numel())] * (Fn - 2), 1)
                with torch.no_grad():
                    lp = net.log_prob(pts).reshape(501, 501)
                integral = float(torch.trapz(torch.trapz(torch.exp(lp.double()), g2.double()), g2.double())) if Fn == 2 else 1.0
            res["integral"] = integral
            res["reproduced"] = abs(integral - 1) > 1e-3
            if M >= 2:
                # density and sampler must read the conditioner output in the same layout: craft outputs (in the
                # documented [feature, component, {logit, mean, std}] order) with one dominant, narrow component per
                # feature; samples then sit on its mean and log_prob there must be large
                out = torch.zeros(1, Fn, M, 3)
                out[..., 0] = -30.0
                out[:, :, 0, 0] = 30.0
                for k in range(M):
                    out[:, :, k, 1] = 3.0 * (k + 1)
                out[..., 2] = -3.0
                flat = out.reshape(1, Fn * M * 3)
                net.forward = lambda inputs, context=None: flat.expand(inputs.shape[0], -1)
                with torch.no_grad():
                    smp = net.sample(20)
                    lp_at = net.log_prob(torch.full((1, Fn), 3.0))
                    lp_smp = net.log_prob(smp)
                res["samples_mean"] = float(smp.mean())
                res["log_prob_at_dominant_mean"] = float(lp_at[0])
                res["min_log_prob_of_own_samples"] = float(lp_smp.min())
                sigma = float(torch.nn.functional.softplus(torch.tensor(-3.0))) + float(net.epsilon)
                expect_lp = -Fn * math.log(sigma * math.sqrt(2 * math.pi))
                res["expected_log_prob_at_dominant_mean"] = expect_lp
                if abs(float(lp_at[0]) - expect_lp) > 0.5 or abs(float(smp.mean()) - 3.0) > 0.5:
                    res["reproduced"] = True
        else:
            N, D = sig["N"], sig["D"]
            s = torch.randn(N, D)
            grid = torch.linspace(-15, 15, 3001)
            if D == 1:
                vals = torch.stack([torchutils.gaussian_kde_log_eval(s, g.reshape(1)) for g in grid])
                integral = float(torch.trapz(torch.exp(vals.double()), grid.double()))
                res["integral"] = integral
                res["reproduced"] = abs(integral - 1) > 1e-3
    except Exception as e:  # noqa
        res["exception"] = "%s: %s" % (type(e).__name__, e)
    return res


def job(cfg):
    return {"bernoulli": job_bernoulli, "normal": job_normal, "mog": job_mog, "mog_sample": job_mog_sample, "kde": job_kde}[cfg["type"]](cfg)


def configs(tier):
    t = 60 if tier == "quick" else 300
    cfgs = [{"type": "bernoulli", "D": D, "timeout": t} for D in ((1, 2) if tier == "quick" else (1, 2, 3, 4, 5))]
    for kind in ("StandardNormal", "DiagonalNormal", "ConditionalDiagonalNormal"):
        for shape in (([1], [2], [2, 1]) if tier == "quick" else ([1], [2], [3], [2, 1], [1, 2], [2, 2])):
            cfgs.append({"type": "normal", "kind": kind, "shape": shape, "timeout": t})
    for Fn, M in (((1, 1), (1, 2), (2, 1)) if tier == "quick" else ((1, 1), (1, 2), (1, 3), (2, 1), (2, 2), (2, 3), (3, 1), (3, 2))):
        cfgs.append({"type": "mog", "F": Fn, "M": M, "timeout": t})
        for picks in itertools.product(range(M), repeat=Fn):
            cfgs.append({"type": "mog_sample", "F": Fn, "M": M, "picks": list(picks), "timeout": t})
    for N, D in (((1, 1), (2, 1), (2, 2)) if tier == "quick" else ((1, 1), (2, 1), (3, 1), (2, 2), (3, 2), (2, 3))):
        cfgs.append({"type": "kde", "N": N, "D": D, "timeout": t})
    return cfgs


def main():
    rep = C.Report(PROP)
    cfgs = configs(C.TIER)
    rep.functions = C.source_hash([DN.StandardNormal, DN.DiagonalNormal, DN.ConditionalDiagonalNormal, DD.ConditionalIndependentBernoulli, made_n.MixtureOfGaussiansMADE.log_prob, made_n.MixtureOfGaussiansMADE.sample, torchutils.gaussian_kde_log_eval])
    rep.bounds = {"bernoulli_D": sorted({c["D"] for c in cfgs if c["type"] == "bernoulli"}), "normal_event_shapes": [[1], [2], [2, 1]], "mixture": sorted({(c["F"], c["M"]) for c in cfgs if c["type"] == "mog"}), "kde": sorted({(c["N"], c["D"]) for c in cfgs if c["type"] == "kde"})}
    rep.assumptions = [
        "the Gaussian integral (a density of the form (2 pi)^(-D/2) prod 1/sigma exp(-1/2 sum z^2) integrates to one) and 'the expectation of a Gaussian is its mean' are assumed mathematics; the checks establish that the code computes exactly that closed form",
        "uniform.py (BoxUniform, MG1Uniform, LotkaVolterraOscillating) delegates to torch.distributions and erf: outside the claim (observed by Monte-Carlo while reading: LotkaVolterraOscillating integrates to about 2e-5 - recorded in DESIGN, not claimed by a check)",
        "MADE mixture: the conditioner is replaced by free outputs in MADE's unit order (its autoregressive structure is C06); ancestral sampling uses torch.distributions.Categorical and is outside",
        "statistical agreement of samples with the density follows from the structural identities and the randn / rand stubs' contracts",
    ]
    rep.stubs = ["torch.randn / rand -> fresh symbols", "MixtureOfGaussiansMADE.forward -> free symbolic outputs (fresh per autoregressive pass in sample)", "distributions.Categorical(...).sample -> the component index fixed by the job (every choice is a job)", "torch.zeros(rows, features) -> symbolic zero buffer for the draws"]
    for jr in C.run_jobs(job, cfgs):
        rep.add_job(jr)
    sys.exit(rep.finish("closed-form identities of the real log-densities against reference densities (exact Bernoulli summation, Gaussian / mixture forms) as polynomial identities in exp-atoms decided by z3, constants checked numerically, sampling structure and mean() on terms"))


if __name__ == "__main__":
    main()
