"""Building real nflows modules and swapping their parameters / float buffers for symbols.

The real constructors run concretely; afterwards `symbolize` replaces every parameter (and selected float
buffers) *in place* (`module._parameters[name] = Sym`), so the real `forward/inverse` code - including
`nn.Module.__call__`, `state_dict`, `load_state_dict`, `train/eval` - runs unmodified on symbols.
"""
from fractions import Fraction

import numpy as np
import torch
from torch import nn

from symtorch import term as tm
from symtorch import scalars as sc
from symtorch import stubs
from symtorch.scalars import S
from symtorch.tensor import Sym, lift

from nflows import transforms as T
from nflows.transforms import base as tbase


def symbolize(module, buffers=(), prefix="", lo=None, positive_buffers=()):
    """Replace all parameters of `module` (recursively) by named free symbols; `buffers` lists buffer names
    (suffix match) to symbolise too.  Returns {full_name: Sym}."""
    out = {}
    for mname, m in module.named_modules():
        for pname, p in list(m._parameters.items()):
            if p is None or isinstance(p, Sym):
                continue
            full = (prefix + (mname + "." if mname else "") + pname).replace(".", "_")
            s = stubs.named_tensor(full, tuple(p.shape), free=True)
            s._is_param = True
            m._parameters[pname] = s
            out[full] = s
        for bname, b in list(m._buffers.items()):
            if b is None or isinstance(b, Sym):
                continue
            if any(bname == x or bname.endswith(x) for x in buffers):
                full = (prefix + (mname + "." if mname else "") + bname).replace(".", "_")
                pos = any(bname == x or bname.endswith(x) for x in positive_buffers)
                s = stubs.named_tensor(full, tuple(b.shape), free=False, lo=0 if pos else None)
                m._buffers[bname] = s
                out[full] = s
    return out


def real_values(module_factory, leaves, buffers=(), dtype=torch.float64):
    """A fresh real module whose parameters / buffers take the values of the leaves (missing -> keep)."""
    module = module_factory()
    module = module.double() if dtype == torch.float64 else module
    with torch.no_grad():
        for mname, m in module.named_modules():
            for pname, p in list(m._parameters.items()):
                if p is None:
                    continue
                full = ((mname + "." if mname else "") + pname).replace(".", "_")
                _fill(p, full, leaves)
            for bname, b in list(m._buffers.items()):
                if b is None or not b.is_floating_point():
                    continue
                if any(bname == x or bname.endswith(x) for x in buffers):
                    full = ((mname + "." if mname else "") + bname).replace(".", "_")
                    _fill(b, full, leaves)
    return module


def _fill(t, full, leaves):
    if t.dim() == 0:
        if full in leaves:
            t.fill_(float(leaves[full]))
        return
    flat = t.reshape(-1)
    for k, idx in enumerate(np.ndindex(tuple(t.shape))):
        nm = "%s_%s" % (full, "_".join(map(str, idx)))
        if nm in leaves:
            flat[k] = float(leaves[nm])


class ARStub(nn.Module):
    """Stand-in for an autoregressive conditioner with the dependency pattern C06 establishes for MADE:
    output unit (i, m) is an uninterpreted function of inputs 0..i-1 and the context."""

    def __init__(self, features, multiplier, name="ar", hidden_features=None):
        super().__init__()
        self.features, self.multiplier, self._name = features, multiplier, name
        if hidden_features is not None:
            self.hidden_features = hidden_features

    def forward(self, inputs, context=None):
        R = sc.reg()
        x = lift(inputs)
        n = x.a.shape[0]
        ctx = None if context is None else lift(context)
        out = np.empty((n, self.features * self.multiplier), dtype=object)
        for r in range(n):
            row = [s.real() for s in x.a[r].reshape(-1)]
            cargs = [s.real() for s in ctx.a[r].reshape(-1)] if ctx is not None else []
            for i in range(self.features):
                args = row[:i] + cargs
                targs = [s.t for s in args]
                for m in range(self.multiplier):
                    fn = "%s_%d_%d" % (self._name, i, m)
                    R.declare_uf(fn)
                    val = tm.app(fn, targs) if targs else R.declare("%s_c" % fn)
                    if not targs:
                        if not hasattr(R, "free"):
                            R.free = set()
                        R.free.add(val)
                    d = None
                    pairs = []
                    for k, s in enumerate(args):
                        if s.d:
                            gn = "%s_d%d" % (fn, k)
                            R.declare_uf(gn)
                            pairs.append((tm.app(gn, targs), s.d))
                    if pairs:
                        d = sc._dual_lin(pairs)
                    out[r, i * self.multiplier + m] = S(val, d)
        return Sym(out)


def ufnet_factory(name, hidden_features=None):
    """transform_net_create_fn for coupling layers: (in_features, out_features) -> UF stub."""

    def create(in_features, out_features):
        def out_shape(in_shape):
            return (out_features,) + tuple(in_shape[1:])

        return stubs.UFNet(name, out_shape, hidden_features=hidden_features)

    return create


def det_terms(M):
    """determinant of a square list-of-lists of terms by cofactor expansion."""
    n = len(M)
    if n == 0:
        return tm.ONE
    if n == 1:
        return M[0][0]
    if n == 2:
        return tm.sub(tm.mul(M[0][0], M[1][1]), tm.mul(M[0][1], M[1][0]))
    parts = []
    for j in range(n):
        e = M[0][j]
        if e.op == "const" and e.args[0] == 0:
            continue
        minor = [[M[r][c] for c in range(n) if c != j] for r in range(1, n)]
        t = tm.mul(e, det_terms(minor))
        parts.append(tm.neg(t) if j % 2 else t)
    return tm.add(*parts) if parts else tm.ZERO


def jacobian(out, n_inputs, row=0):
    """matrix of dual parts of one batch row: J[i][j] = d out_i / d x_j (seed index j)."""
    elems = list(out.a[row].reshape(-1)) if out.a.ndim > 1 else [out.a[row]]
    J = []
    for s in elems:
        d = s.d or {}
        J.append([d.get(j, tm.ZERO) for j in range(n_inputs)])
    return J
