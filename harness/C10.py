"""C10 - weight caching in linear transforms is transparent over every history.

One inductive step instead of histories.  Abstract state of a linear-family transform:
   (training, using_cache, cache.weight, cache.inverse, cache.logabsdet) with each slot None or *valid*
   (= the accessor's term at the current symbolic parameters);  invariant Inv: training => all slots None.
From every Inv-state the real object is put into that state (real module, parameters swapped for symbols, slots
filled by the real accessors) and each operation
   train(), eval(), use_cache(True/False), forward(x), inverse(y), parameter update (training mode, arbitrary new
   values), load_state_dict (the real method, arbitrary new values, any mode)
is executed with the real code.  z3 decides (i) outputs and log-abs-dets equal forward_no_cache / inverse_no_cache
at the *current* parameters and (ii) Inv holds afterwards (every non-None slot equals its accessor at the current
parameters).  One step from an arbitrary Inv-state covers histories of every length.
"""
import itertools
import random
import sys

import numpy as np
import torch

from harness import common as C
from harness import C01
from harness import transformkit as TK
from harness import cases as CS
from symtorch import term as tm, scalars as sc, smt, explore, stubs, poly
from symtorch.scalars import S
from symtorch.tensor import Sym, _obj

from nflows.transforms import linear as LN, lu as LU, qr as QR, svd as SV, conv as CV

PROP = "C10"

CLASSES = {
    "LULinear": (lambda: LU.LULinear(2, using_cache=True), (2,)),
    "NaiveLinear": (lambda: LN.NaiveLinear(2, orthogonal_initialization=False, using_cache=True), (2,)),
    "QRLinear/H=1": (lambda: QR.QRLinear(2, num_householder=1, using_cache=True), (2,)),
    "QRLinear/H=2": (lambda: QR.QRLinear(2, num_householder=2, using_cache=True), (2,)),
    "SVDLinear/H=2": (lambda: SV.SVDLinear(2, num_householder=2, using_cache=True), (2,)),
    "OneByOneConvolution": (lambda: CV.OneByOneConvolution(2, using_cache=True), (2, 1, 2)),
}

class _Parent(torch.nn.Module):
    """minimal enclosing container (what CompositeTransform / Flow are to a linear transform for state-dict loading)"""

    def __init__(self, child):
        super().__init__()
        self.child = child


OPS = ("train", "eval", "use_cache_on", "use_cache_off", "forward", "inverse", "param_update", "load_state_dict", "load_state_dict_via_parent")


def states():
    out = [(True, u, False, False, False) for u in (True, False)]
    for u in (True, False):
        for w, i, l in itertools.product((False, True), repeat=3):
            out.append((False, u, w, i, l))
    return out


def preconditions(params):
    asm = []
    for nm, p in params.items():
        if nm.endswith("q_vectors"):
            for row in p.a:
                asm.append(tm.gt(tm.add(*[tm.mul(s.t, s.t) for s in row]), tm.ZERO))
        if nm.endswith("_weight") and p.a.ndim == 2:
            n = p.a.shape[0]
            asm.append(tm.not_(tm.eq0(TK.det_terms([[p.a[i, j].t for j in range(n)] for i in range(n)]))))
    return asm


def fresh_state_dict(m, tag):
    sd = {}
    for k, v in m.state_dict().items():
        if isinstance(v, Sym):
            sd[k] = stubs.named_tensor("%s_%s" % (tag, k.replace(".", "_")), tuple(v.a.shape), free=True)
        else:
            sd[k] = v
    return sd


def job(cfg):
    cname, state, op = cfg["cls"], tuple(cfg["state"]), cfg["op"]
    timeout = cfg["timeout"]
    fac, in_shape = CLASSES[cname]
    R = sc.new_registry()
    solver = smt.Z3Proc()
    training, using, hw, hi, hl = state
    name = "%s/state(training=%s,using_cache=%s,w=%s,inv=%s,lad=%s)/%s" % (cname, training, using, hw, hi, hl, op)
    jr = C01.new_jr(cname)
    jr["paths"] = 1
    jr["transitions"] = 0

    def eq_arr(a, b, asm):
        A, Bv = a.a.reshape(-1), b.a.reshape(-1)
        if a.a.shape != b.a.shape:
            return "shape %s vs %s" % (a.a.shape, b.a.shape)
        gs = []
        for x, y in zip(A, Bv):
            if x.t is y.t:
                continue
            g, _ = poly.eq_goal_reparam(R, x.t, y.t)
            gs.append(g)
        if not gs:
            return None
        o = C.prove(R, solver, "eq", tm.and_(*gs), [asm], timeout)
        jr["outcomes"].append(dict(o.as_dict(), name=name + "/eq"))
        if o.status == "unsat":
            return None
        return "differs (%s)" % o.status

    def lad_eq(a, b, asm):
        if a.a.shape != b.a.shape:
            return "lad shape %s vs %s" % (a.a.shape, b.a.shape)
        gs = []
        for x, y in zip(a.a.reshape(-1), b.a.reshape(-1)):
            if x.t is y.t:
                continue
            g, size = poly.eq_goal_reparam(R, sc.t_exp(tm.sub(x.t, y.t)), tm.ONE)
            gs.append(g)
        if not gs:
            return None
        o = C.prove(R, solver, "lad", tm.and_(*gs), [asm], timeout)
        jr["outcomes"].append(dict(o.as_dict(), name=name + "/lad"))
        return None if o.status == "unsat" else "log-abs-det differs (%s)" % o.status

    with stubs.torch_patches():
        R.begin_run()
        torch.manual_seed(0)
        m = fac()
        params = TK.symbolize(m)
        asm = preconditions(params)
        # put the real object into the abstract state
        nn_train = torch.nn.Module.train
        nn_train(m, training)
        m.using_cache = using
        m.cache.invalidate()
        if hw:
            m.cache.weight = m.weight()
        if hi:
            m.cache.inverse = m.weight_inverse()
        if hl:
            m.cache.logabsdet = m.logabsdet()
        x = stubs.named_tensor("x", (1,) + in_shape)
        err = None
        applicable = True
        try:
            if op == "train":
                m.train()
            elif op == "eval":
                m.eval()
            elif op == "use_cache_on":
                m.use_cache(True)
            elif op == "use_cache_off":
                m.use_cache(False)
            elif op in ("forward", "inverse"):
                out, lad = m(x) if op == "forward" else m.inverse(x)
                # reference: recompute from the current parameters without the cache
                saved = (m.using_cache,)
                m.using_cache = False
                ref, rlad = m(x) if op == "forward" else m.inverse(x)
                m.using_cache = saved[0]
                err = eq_arr(out, ref, asm) or lad_eq(lad, rlad, asm)
            elif op == "param_update":
                if not training:
                    applicable = False  # the property words optimiser steps as happening in training mode
                else:
                    new = fresh_state_dict(m, "upd")
                    for mod_name, mod in m.named_modules():
                        for pn in list(mod._parameters):
                            key = (mod_name + "." if mod_name else "") + pn
                            mod._parameters[pn] = new[key]
                    asm = asm + preconditions({k.replace(".", "_"): v for k, v in new.items() if isinstance(v, Sym)})
            elif op == "load_state_dict":
                new = fresh_state_dict(m, "ld")
                m.load_state_dict(new)
                asm = asm + preconditions({k.replace(".", "_"): v for k, v in m.state_dict().items() if isinstance(v, Sym)})
            elif op == "load_state_dict_via_parent":
                # the state dict of an enclosing container (a flow / composite) is loaded: torch then calls only the
                # child's _load_from_state_dict hook, never its public load_state_dict
                new = fresh_state_dict(m, "ldp")
                parent = _Parent(m)
                parent.load_state_dict({"child." + k: v for k, v in new.items()})
                asm = asm + preconditions({k.replace(".", "_"): v for k, v in m.state_dict().items() if isinstance(v, Sym)})
        except explore.NotModelled as e:
            jr["inconclusive"].append({"query": name, "notmodelled": str(e)})
            solver.close()
            return jr
        if not applicable:
            solver.close()
            jr["paths"] = 0
            return jr
        jr["transitions"] = 1
        if err is not None:
            report(jr, cname, state, op, "output-differs-from-uncached", err)
        # invariant afterwards
        post = (m.training, m.using_cache, m.cache.weight is not None, m.cache.inverse is not None, m.cache.logabsdet is not None)
        jr["post_state"] = list(post)
        inv_err = None
        if m.training and (post[2] or post[3] or post[4]):
            inv_err = "cache not empty in training mode"
        else:
            if m.cache.weight is not None:
                inv_err = inv_err or eq_arr(m.cache.weight, m.weight(), asm)
            if m.cache.inverse is not None:
                inv_err = inv_err or eq_arr(m.cache.inverse, m.weight_inverse(), asm)
            if m.cache.logabsdet is not None:
                inv_err = inv_err or lad_eq(Sym(m.cache.logabsdet.a.reshape(1)), Sym(m.logabsdet().a.reshape(1)), asm)
        jr["outcomes"].append({"name": name + "/invariant-after", "kind": "goal", "status": "unsat" if inv_err is None else "sat", "s": 0.0, "expect": "unsat", "detail": inv_err or ""})
        if inv_err is not None:
            report(jr, cname, state, op, "stale-cache-after", inv_err)
        # probe: whatever state the object is in now (including state the abstraction does not name, e.g. a memo kept
        # next to the cache), the next forward and inverse passes agree with the uncached recomputation
        if inv_err is None and err is None and not m.training:
            try:
                for direction in ("forward", "inverse"):
                    out, lad = m(x) if direction == "forward" else m.inverse(x)
                    was = m.using_cache
                    m.using_cache = False
                    ref, rlad = m(x) if direction == "forward" else m.inverse(x)
                    m.using_cache = was
                    perr = eq_arr(out, ref, asm) or lad_eq(lad, rlad, asm)
                    jr["outcomes"].append({"name": name + "/probe-" + direction, "kind": "goal", "status": "unsat" if perr is None else "sat", "s": 0.0, "expect": "unsat", "detail": perr or ""})
                    if perr is not None:
                        report(jr, cname, state, op, "next-pass-differs-from-uncached", perr)
                        break
            except explore.NotModelled as e:
                jr["inconclusive"].append({"query": name + "/probe", "notmodelled": str(e)})
        jr["samples"].append({"transition": name, "post_state": list(post)})
    solver.close()
    return jr


def witness_prefix(state):
    """shortest operation sequence that drives a fresh object into the abstract state (for replays)."""
    training, using, hw, hi, hl = state
    seq = []
    if training:
        return ["train"] + (["use_cache_on"] if using else ["use_cache_off"])
    seq = ["eval", "use_cache_on"]
    if hw and hl and not hi:
        seq += ["forward"]
    elif hi and hl and not hw:
        seq += ["inverse"]
    elif hw and hi and hl:
        seq += ["forward", "inverse"]
    elif hw or hi or hl:
        seq += ["fill:%s%s%s" % ("w" if hw else "", "i" if hi else "", "l" if hl else "")]
    if not using:
        seq += ["use_cache_off"]
    return seq


def report(jr, cname, state, op, relation, err):
    history = witness_prefix(state) + [op]
    # a broken invariant (e.g. a cache that survives train()) only becomes observable after further operations:
    # try the witness history alone and followed by probe suffixes
    suffixes = [[], ["param_update", "eval", "use_cache_on"], ["train", "param_update", "eval", "use_cache_on"], ["eval", "use_cache_on"], ["load_state_dict", "eval", "use_cache_on"], ["load_state_dict_via_parent", "eval", "use_cache_on"]]
    rep = {"reproduced": False}
    with stubs.real_torch():
        for suf in suffixes:
            rep = replay(cname, history + suf)
            if rep.get("reproduced"):
                history = history + suf
                break
    sig = {"cls": cname.split("/")[0], "op": op}
    payload = {"property": PROP, "kernel": cname, "relation": relation, "signature": sig, "state": list(state), "history": history, "error": err, "replay_result": rep, "replay_call": {"fn": "harness.C10:replay", "args": {"cname": cname, "history": history}}}
    if rep.get("reproduced"):
        fn = "".join(ch if ch.isalnum() else "_" for ch in "%s_%s_%s" % (cname, op, relation))[:100]
        jr["violations"].append({"kernel": cname, "relation": relation, "signature": sig, "replay": C.write_replay(PROP, fn, payload), "detail": rep})
    else:
        jr["inconclusive"].append({"query": "%s/%s/%s" % (cname, state, op), "why": "inductive-step failure not reproduced by the witness history %s" % history, "error": err, "replay": rep})


def replay(cname, history, seed=0):
    """runs a concrete history on the real class; after every step compares forward/inverse with the uncached
    recomputation from the current parameters."""
    res = {"reproduced": False, "history": history}
    fac, in_shape = CLASSES[cname]
    try:
        torch.manual_seed(seed)
        m = fac()
        other = fac()
        with torch.no_grad():
            for p in other.parameters():
                p.add_(torch.randn_like(p) * 0.5)
        x = torch.randn((3,) + in_shape)
        worst = 0.0
        for step in history + ["forward", "inverse"]:
            if step == "train":
                m.train()
            elif step == "eval":
                m.eval()
            elif step == "use_cache_on":
                m.use_cache(True)
            elif step == "use_cache_off":
                m.use_cache(False)
            elif step.startswith("fill:"):
                f = step[5:]
                with torch.no_grad():
                    if "w" in f:
                        m.cache.weight = m.weight()
                    if "i" in f:
                        m.cache.inverse = m.weight_inverse()
                    if "l" in f:
                        m.cache.logabsdet = m.logabsdet()
            elif step == "param_update":
                if not m.training:
                    continue  # optimiser steps are taken in training mode (the property's wording)
                with torch.no_grad():
                    for p in m.parameters():
                        p.add_(torch.randn_like(p) * 0.3)
            elif step == "load_state_dict":
                m.load_state_dict(other.state_dict())
            elif step == "load_state_dict_via_parent":
                _Parent(m).load_state_dict({"child." + k: v for k, v in other.state_dict().items()})
            elif step in ("forward", "inverse"):
                with torch.no_grad():
                    y, l = m(x) if step == "forward" else m.inverse(x)
                    u = m.using_cache
                    m.using_cache = False
                    yr, lr = m(x) if step == "forward" else m.inverse(x)
                    m.using_cache = u
                worst = max(worst, float((y - yr).abs().max()), float((l - lr).abs().max()))
        res["max_deviation_from_uncached"] = worst
        res["reproduced"] = worst > 1e-3  # float32 replay; a stale cache deviates by O(1)
    except Exception as e:  # noqa
        res["exception"] = "%s: %s" % (type(e).__name__, e)
    return res


def validate_random_histories(n, length, seed):
    """traces validated against the implementation: random concrete histories on the real classes."""
    rng = random.Random(seed)
    ok = bad = 0
    examples = []
    for _ in range(n):
        cname = rng.choice(list(CLASSES))
        hist = [rng.choice(["train", "eval", "use_cache_on", "use_cache_off", "forward", "inverse", "param_update_in_training", "load_state_dict", "load_state_dict_via_parent"]) for _ in range(length)]
        real = []
        mode_train = True
        for h in hist:
            if h == "param_update_in_training":
                real += ["train", "param_update"]
            else:
                real.append(h)
        r = replay(cname, real, seed=rng.randrange(1000))
        if r.get("reproduced") or r.get("exception"):
            bad += 1
            examples.append({"cls": cname, "history": real, "result": r})
        else:
            ok += 1
    return ok, bad, examples


def configs(tier):
    t = 60 if tier == "quick" else 300
    cfgs = []
    names = list(CLASSES) if tier != "quick" else ["LULinear", "NaiveLinear", "QRLinear/H=1", "SVDLinear/H=2", "OneByOneConvolution"]
    for cname in names:
        for st in states():
            for op in OPS:
                cfgs.append({"cls": cname, "state": list(st), "op": op, "timeout": t})
    return cfgs


def main():
    rep = C.Report(PROP, level="model_checking")
    cfgs = configs(C.TIER)
    rep.functions = C.source_hash([LN.Linear, LN.LinearCache, LN.NaiveLinear, LU.LULinear, QR.QRLinear, SV.SVDLinear, CV.OneByOneConvolution])
    rep.bounds = {"classes": sorted({c["cls"] for c in cfgs}), "features": 2, "abstract_states": len(states()), "operations": list(OPS), "batch": "one row (1x2x1x2 image for the 1x1 convolution)"}
    rep.assumptions = [
        "one inductive step from an arbitrary state satisfying the invariant covers all finite histories (induction over the history length)",
        "parameter updates (optimiser steps) happen in training mode, as the property words it; load_state_dict in any mode",
        "dtype round-trips and repeated back-propagation (autograd version counters, graph retention) have no real-arithmetic content and are outside the claim",
        "Householder vectors non-zero, NaiveLinear weight non-singular",
    ]
    rep.stubs = ["parameters replaced by symbols; load_state_dict is the real nn.Module method fed with fresh symbols"]
    trans = 0
    seen_states = set()
    for jr in C.run_jobs(job, cfgs):
        rep.add_job(jr)
        trans += jr.get("transitions", 0)
        if jr.get("post_state"):
            seen_states.add(tuple(jr["post_state"]))
    nval = 24 if C.TIER == "quick" else 200
    ok, bad, ex = validate_random_histories(nval, 6, C.SEED)
    rep.counts["validated"] += ok
    if bad:
        for e in ex[:3]:
            rep.inconclusive.append({"random_history_deviates": e})
    rep.extra["exhaustive"] = True
    code = rep.finish("inductive model checking of the cache state machine on the real classes: every (abstract state, operation) pair executed with the real code on symbolic parameters, outputs and the cache invariant decided by z3", states=len(states()) * len(rep.bounds["classes"]), transitions=trans)
    sys.exit(code)


if __name__ == "__main__":
    main()
