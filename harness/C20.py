"""C20 - tensor and mask utilities obey their algebraic specifications.

The real helper functions run on symbolic tensors; every claim is an equation / inequality over the symbolic
contents decided by z3 (most are syntactic identities of terms after the run), shapes are enumerated
exhaustively up to the stated bound:

  tile, repeat_rows, merge_leading_dims, split_leading_dim, sum_except_batch   index formulas
  searchsorted   real mode: knots[idx] <= x < knots[idx+1] for sorted knots; IEEE mode: idx in [0, K-1]
  cbrt           cbrt(x)^3 == x for x != 0 (both signs)
  get_temperature  sigmoid(T * max_value) == bound below the cap, 1 only when the solution exceeds 1
  logabsdet      exp(result)^2 == det^2
  mask constructors   pattern and count; random mask with the multinomial draw as arbitrary distinct indices
  typechecks     CrossHair contracts on the real predicates (bool / int semantics)
  no helper modifies its arguments (mutation log of the engine)
"""
import itertools
import os
import subprocess
import sys

import numpy as np
import torch

from harness import common as C
from harness import C01, C17
from symtorch import term as tm, scalars as sc, smt, explore, stubs
from symtorch.scalars import S
from symtorch.tensor import Sym, _obj, _root

from nflows.utils import torchutils, typechecks

PROP = "C20"


def _same(a, b):
    a, b = np.asarray(a, dtype=object), np.asarray(b, dtype=object)
    return a.shape == b.shape and all(x.t is y.t for x, y in zip(a.reshape(-1), b.reshape(-1)))


def rec(jr, name, ok, detail=""):
    jr["outcomes"].append({"name": name, "kind": "goal", "status": "unsat" if ok else "sat", "s": 0.0, "expect": "unsat", "rung": "syntactic", "detail": detail})
    return ok


def violation(jr, kernel, relation, sig, call):
    rep = replay_call(**call)
    payload = {"property": PROP, "kernel": kernel, "relation": relation, "signature": sig, "replay_result": rep, "replay_call": {"fn": "harness.C20:replay_call", "args": call}}
    if rep.get("reproduced"):
        fn = "".join(ch if ch.isalnum() else "_" for ch in "%s_%s" % (kernel, relation))[:100]
        jr["violations"].append({"kernel": kernel, "relation": relation, "signature": sig, "replay": C.write_replay(PROP, fn, payload), "detail": rep})
    else:
        jr["inconclusive"].append({"query": kernel + "/" + relation, "why": "not reproduced on real tensors", "replay": rep})


def job_shapes(cfg):
    """reshape-based helpers, all shapes with <= 3 dims of size <= 3 (and repetition counts <= 3)."""
    jr = C01.new_jr("reshape-helpers")
    R = sc.new_registry()
    maxd = cfg["maxd"]
    shapes = [s for nd in ((1, 2, 3) if maxd <= 3 else (1, 2, 3, 4)) for s in itertools.product(range(1, maxd + 1), repeat=nd) if int(np.prod(s)) <= 96]
    n = 0
    for shape in shapes:
        x = stubs.named_tensor("v", shape)
        before = x.a.copy()
        for reps in (1, 2, 3):
            # repeat_rows: row i repeated consecutively
            y = torchutils.repeat_rows(x, reps)
            ok = y.a.shape == (shape[0] * reps,) + tuple(shape[1:]) and all(_same(y.a[i * reps + r], x.a[i]) for i in range(shape[0]) for r in range(reps))
            n += 1
            if not rec(jr, "repeat_rows%s x%d" % (shape, reps), ok):
                violation(jr, "repeat_rows", "rows-consecutive", {"shape": list(shape), "reps": reps}, {"fn": "repeat_rows", "shape": list(shape), "n": reps})
            # tile: flat, element i repeated consecutively
            t = torchutils.tile(x, reps)
            flat = x.a.reshape(-1)
            ok = t.a.shape == (flat.shape[0] * reps,) and all(t.a[i * reps + r].t is flat[i].t for i in range(flat.shape[0]) for r in range(reps))
            n += 1
            if not rec(jr, "tile%s x%d" % (shape, reps), ok):
                violation(jr, "tile", "copies-consecutive", {"shape": list(shape), "reps": reps}, {"fn": "tile", "shape": list(shape), "n": reps})
        for nd in range(1, len(shape) + 1):
            m = torchutils.merge_leading_dims(x, nd)
            lead = int(np.prod(shape[:nd]))
            ok = m.a.shape == (lead,) + tuple(shape[nd:]) and _same(m.a.reshape(-1), x.a.reshape(-1))
            back = torchutils.split_leading_dim(m, list(shape[:nd]))
            ok = ok and _same(back.a, x.a)
            n += 1
            if not rec(jr, "split(merge(x,%d))%s" % (nd, shape), ok):
                violation(jr, "merge_split", "mutually-inverse", {"shape": list(shape), "nd": nd}, {"fn": "merge_split", "shape": list(shape), "n": nd})
        for nb in range(0, len(shape) + 1):
            s_ = torchutils.sum_except_batch(x, nb)
            if nb == len(shape):
                # nothing left to reduce: the documented result is x itself (torch.sum(dim=[]) reduces everything)
                expect_shape = tuple(shape)
            else:
                expect_shape = tuple(shape[:nb])
            ok = s_.a.shape == expect_shape
            if ok:
                ref = x.a.reshape(expect_shape + (-1,)) if nb < len(shape) else x.a.reshape(expect_shape + (1,))
                for idx in np.ndindex(expect_shape):
                    tot = tm.add(*[e.t for e in ref[idx]])
                    ok = ok and (s_.a[idx].t is tot)
            n += 1
            if not rec(jr, "sum_except_batch%s nb=%d" % (shape, nb), ok, "shape %s expected %s" % (s_.a.shape, expect_shape)):
                violation(jr, "sum_except_batch", "preserves-batch-dims", {"nb_equals_ndim": nb == len(shape)}, {"fn": "sum_except_batch", "shape": list(shape), "n": nb})
        if not _same(before, x.a):
            rec(jr, "arguments-unmodified%s" % (shape,), False)
    jr["paths"] = n
    jr["samples"].append({"helper": "repeat_rows", "shape": [2, 3], "reps": 2, "claim": "out[i*2+r] is x[i] (same terms)"})
    return jr


def job_searchsorted_real(cfg):
    K = cfg["K"]
    timeout = cfg["timeout"]
    R = sc.new_registry()
    solver = smt.Z3Proc()
    h = {}

    def fn():
        k0 = stubs.scalar("k0").a[()]
        gaps = [stubs.scalar("g%d" % i, lo=0).a[()] for i in range(K)]
        knots = [k0]
        for g in gaps:
            knots.append(knots[-1] + g)
        x = stubs.scalar("x").a[()]
        explore.assume(tm.ge(x.t, knots[0].t))
        explore.assume(tm.le(x.t, knots[-1].t))
        kn = Sym(_obj(np.array([knots], dtype=object)))
        h["knots"], h["x"], h["arr"] = knots, x, kn
        h["before"] = [s.t for s in kn.a.reshape(-1)]
        idx = torchutils.searchsorted(kn, Sym(_obj(np.array([x], dtype=object))))
        h["after"] = [s.t for s in kn.a.reshape(-1)]
        return idx

    ex = explore.Explorer(R, solver)
    results = ex.explore(fn)
    jr = C01.new_jr("searchsorted/real")
    jr["paths"] = len(results)
    jr["prune_queries"] = ex.stats["prune_queries"]
    mutated = False
    for i, r in enumerate(results):
        name = "searchsorted/real/K=%d/path%d" % (K, i)
        if r.kind != "return":
            jr["inconclusive"].append({"path": r.path.describe(), "unexpected": str(r.exc)})
            continue
        idx = int(r.value.a[0].concrete())
        knots, x = h["knots"], h["x"]
        def bracket_failure(model, what, conds=None):
            if conds is not None:
                model = C.robust_model(R, solver, conds, min(timeout, 20)) or model
            leaves = C.leaf_values(R, model)
            call = {"K": K, "leaves": leaves}
            rep = replay_bracket(**call)
            payload = {"property": PROP, "kernel": "searchsorted", "relation": "bracket", "signature": {"kernel": "searchsorted"}, "leaves": leaves, "what": what, "replay_result": rep, "replay_call": {"fn": "harness.C20:replay_bracket", "args": call}}
            if rep.get("reproduced"):
                if not any(v["relation"] == "bracket" for v in jr["violations"]):
                    jr["violations"].append({"kernel": "searchsorted", "relation": "bracket", "signature": {"kernel": "searchsorted"}, "replay": C.write_replay(PROP, "searchsorted_bracket_K%d" % K, payload), "detail": rep})
            else:
                jr["inconclusive"].append({"query": name, "why": what + " (solver model not reproduced on real tensors)", "leaves": leaves, "replay": rep})

        if not (0 <= idx <= K - 1):
            st, model, secs, _ = C.check_sat(R, solver, r.path.condition(), timeout)
            jr["outcomes"].append({"name": name + "/index-in-range", "kind": "goal", "status": st, "s": round(secs, 3), "expect": "unsat"})
            if st == "sat":
                bracket_failure(model, "index %d outside [0,%d] on a feasible path" % (idx, K - 1), r.path.condition())
            elif st != "unsat":
                jr["inconclusive"].append({"query": name, "why": "index %d outside [0,%d]: feasibility %s" % (idx, K - 1, st)})
            continue
        last = idx == K - 1
        goal = tm.and_(tm.le(knots[idx].t, x.t), tm.le(x.t, knots[idx + 1].t) if last else tm.lt(x.t, knots[idx + 1].t))
        o = C.prove(R, solver, name + "/knots[idx]<=x<knots[idx+1]", goal, [r.path.condition()], timeout)
        jr["outcomes"].append(o.as_dict())
        if o.status == "sat":
            bracket_failure(o.model, "x not inside the returned bin %d" % idx, list(r.path.condition()) + [tm.not_(goal)])
        elif o.status != "unsat":
            jr["inconclusive"].append({"query": o.name, "status": o.status})
        w = C.witness(R, solver, name + "/reach", r.path.condition(), timeout)
        jr["outcomes"].append(w.as_dict())
        if any(a is not b for a, b in zip(h["before"], h["after"])):
            mutated = True
    if not rec(jr, "searchsorted/real/K=%d/argument-unmodified" % K, not mutated):
        violation(jr, "searchsorted", "modifies-argument", {}, {"fn": "searchsorted_mutation", "shape": [K + 1], "n": 0})
    jr["samples"].append({"kernel": "searchsorted", "K": K, "paths": [r.path.describe()[-2:] for r in results[:3]]})
    solver.close()
    return jr


def replay_bracket(K, leaves):
    """real float64 tensors: knots[idx] <= x < knots[idx+1] (last bin closed) for the returned index."""
    res = {"reproduced": False}
    try:
        ks = [float(leaves.get("k0", 0.0))]
        for i in range(K):
            ks.append(ks[-1] + float(leaves.get("g%d" % i, 1.0)))
        x = float(leaves.get("x", ks[0]))
        kn = torch.tensor([ks], dtype=torch.float64)
        idx = int(torchutils.searchsorted(kn, torch.tensor([x], dtype=torch.float64))[0])
        res.update({"knots": ks, "x": x, "index": idx})
        if not (0 <= idx <= K - 1):
            res["reproduced"] = ks[0] <= x <= ks[-1]
        else:
            ok = ks[idx] <= x and (x <= ks[idx + 1] if idx == K - 1 else x < ks[idx + 1])
            res["reproduced"] = (ks[0] <= x <= ks[-1]) and not ok
    except Exception as e:  # noqa
        res["exception"] = "%s: %s" % (type(e).__name__, e)
    return res


def replay_cbrt(x):
    """real cbrt at the model's x (float64 and float32): relative error of y^3 against x"""
    res = {"reproduced": False, "x": x}
    try:
        for dt, tol in ((torch.float64, 1e-9), (torch.float32, 1e-4)):
            xt = torch.tensor([x], dtype=dt)
            if float(xt) == 0.0:
                continue
            y = torchutils.cbrt(xt)
            rel = abs(float(y.double() ** 3 - xt.double()) / float(xt.double()))
            res[str(dt)] = {"cbrt": float(y), "relative_error_of_cube": rel}
            if not (rel <= tol):
                res["reproduced"] = True
    except Exception as e:  # noqa
        res["exception"] = "%s: %s" % (type(e).__name__, e)
    return res


def job_cbrt(cfg):
    timeout = cfg["timeout"]
    R = sc.new_registry()
    solver = smt.Z3Proc()
    jr = C01.new_jr("cbrt")
    for sign, lo, hi in (("positive", 0, None), ("negative", None, 0)):
        x = stubs.scalar("x_" + sign, lo=lo, hi=hi)
        ex = explore.Explorer(R, solver)
        res = ex.explore(lambda: torchutils.cbrt(x))
        jr["paths"] += len(res)
        for i, r in enumerate(res):
            if r.kind != "return":
                jr["inconclusive"].append({"cbrt": sign, "unexpected": str(r.exc)})
                continue
            y = r.value.a[()].t
            goal = tm.eq(tm.power(y, 3), x.a[()].t)
            o = C.prove(R, solver, "cbrt/%s/y^3==x" % sign, goal, [r.path.condition()], timeout)
            jr["outcomes"].append(o.as_dict())
            if o.status != "unsat":
                xv = [float(v) for t, v in (o.model or {}).items() if t is x.a[()].t]
                rep = replay_cbrt(xv[0]) if xv else {"reproduced": False}
                if rep.get("reproduced"):
                    payload = {"property": PROP, "kernel": "cbrt", "relation": "y^3==x", "replay_result": rep, "replay_call": {"fn": "harness.C20:replay_cbrt", "args": {"x": xv[0]}}}
                    jr["violations"].append({"kernel": "cbrt", "relation": "y^3==x", "signature": "cbrt/" + sign, "replay": C.write_replay(PROP, "cbrt_" + sign, payload), "detail": rep})
                else:
                    jr["inconclusive"].append({"query": o.name, "status": o.status, "replay": rep})
            o2 = C.prove(R, solver, "cbrt/%s/sign(y)==sign(x)" % sign, tm.gt(tm.mul(y, x.a[()].t), tm.ZERO), [r.path.condition()], timeout)
            jr["outcomes"].append(o2.as_dict())
            if o2.status != "unsat":
                jr["inconclusive"].append({"query": o2.name, "status": o2.status})
            for ob in r.path.obligations:
                o3 = C.prove(R, solver, "cbrt/%s/obl:%s" % (sign, ob.kind), ob.cond, [r.path.condition(ob.n_dec, ob.n_asm)], timeout, kind="obligation")
                jr["outcomes"].append(o3.as_dict())
                if o3.status != "unsat":
                    jr["inconclusive"].append({"query": o3.name, "status": o3.status})
    jr["samples"].append({"kernel": "cbrt", "claim": "cbrt(x)^3 == x and sign preserved, x != 0"})
    solver.close()
    return jr


class _TorchProxy:
    """`torch` as seen by get_temperature: `torch.Tensor([python scalar])` builds a one-element symbolic tensor
    from a symbolic scalar (the function has no tensor entry point); everything else is real torch."""

    def __getattr__(self, n):
        return getattr(torch, n)

    @staticmethod
    def Tensor(lst):
        out = np.empty((len(lst),), dtype=object)
        for i, v in enumerate(lst):
            out[i] = v.a[()] if isinstance(v, Sym) else S(tm.read_float(v)) if isinstance(v, float) else S(tm.const(v))
        return Sym(out)


def replay_temperature(m, b):
    """real get_temperature at (max_value, bound): sigmoid(T * max_value) == bound when T < 1, else T == 1 and
    sigmoid(max_value) <= bound"""
    res = {"reproduced": False, "max_value": m, "bound": b}
    try:
        T = torchutils.get_temperature(m, b)
        Tv = float(T)
        res["temperature"] = Tv
        sg = float(torch.sigmoid(torch.tensor(Tv * m, dtype=torch.float64)))
        res["sigmoid"] = sg
        if Tv > 1:
            res["reproduced"] = True
        elif Tv < 1:
            res["reproduced"] = abs(sg - b) > 1e-4 * max(1.0, 1.0 / min(b, 1 - b) * 1e-2)
        else:
            res["reproduced"] = sg > b + 1e-4
    except Exception as e:  # noqa
        res["exception"] = "%s: %s" % (type(e).__name__, e)
        res["reproduced"] = True
    return res


def job_temperature(cfg):
    """get_temperature(max_value, bound) for every max_value > 0 and every bound in (0,1): the returned T satisfies sigmoid(T*max_value) == bound when it is below the cap 1; when the
    cap applies the uncapped solution is >= 1 (path condition) and 1 is returned."""
    timeout = cfg["timeout"]
    R = sc.new_registry()
    solver = smt.Z3Proc()
    jr = C01.new_jr("get_temperature")
    m = stubs.scalar("maxv", lo=0)
    b = stubs.scalar("bound", lo=0, hi=1)
    mt, bt = m.a[()].t, b.a[()].t
    ex = explore.Explorer(R, solver)
    with stubs.patched((torchutils, "torch", _TorchProxy())):
        res = ex.explore(lambda: torchutils.get_temperature(m, b))
    jr["paths"] += len(res)
    kinds = set()

    def fail(o, relation):
        vals = {}
        for t, v in (o.model or {}).items():
            if t is mt:
                vals["m"] = float(v)
            if t is bt:
                vals["b"] = float(v)
        if len(vals) == 2:
            rep = replay_temperature(**vals)
            if rep.get("reproduced"):
                payload = {"property": PROP, "kernel": "get_temperature", "relation": relation, "replay_result": rep, "replay_call": {"fn": "harness.C20:replay_temperature", "args": vals}}
                jr["violations"].append({"kernel": "get_temperature", "relation": relation, "signature": "get_temperature/" + relation, "replay": C.write_replay(PROP, "get_temperature_" + "".join(ch if ch.isalnum() else "_" for ch in relation), payload), "detail": rep})
                return
        jr["inconclusive"].append({"query": o.name, "status": o.status, "why": "not decided / not reproduced on real tensors"})

    for r in res:
        if r.kind != "return":
            jr["inconclusive"].append({"get_temperature": "unexpected", "exc": str(r.exc)})
            continue
        cond = r.path.condition()
        if isinstance(r.value, Sym):
            kinds.add("solved")
            T = r.value
            if T.a.shape != (1,):
                jr["inconclusive"].append({"get_temperature": "shape", "shape": list(T.a.shape)})
                continue
            Tt = T.a[0].t
            sg = torch.sigmoid(T * m).a[0].t
            for nm, goal in (("sigmoid(T*max)==bound", tm.eq(sg, bt)), ("T<=1", tm.le(Tt, tm.ONE))):
                o = C.prove(R, solver, "get_temperature/solved/" + nm, goal, [cond], timeout)
                jr["outcomes"].append(o.as_dict())
                if o.status != "unsat":
                    fail(o, nm)
            w = C.witness(R, solver, "get_temperature/solved/twin:reachable+false-claim", list(cond) + [tm.not_(tm.eq(sg, tm.sub(tm.ONE, bt)))], timeout)
            jr["outcomes"].append(w.as_dict())
            if w.status != "sat":
                jr["inconclusive"].append({"query": w.name, "status": w.status})
        else:
            kinds.add("capped")
            ok = (r.value == 1) and not isinstance(r.value, bool)
            rec(jr, "get_temperature/capped/returns 1", ok, repr(r.value))
            if not ok:
                jr["inconclusive"].append({"get_temperature": "capped value", "value": repr(r.value)})
            # the cap applies only when the exact solution log(b/(1-b))/max exceeds 1
            sol = tm.mul(tm.power(mt, -1), tm.sub(sc.t_log(bt), sc.t_log(tm.sub(tm.ONE, bt))))
            o = C.prove(R, solver, "get_temperature/capped/solution>1", tm.gt(sol, tm.ONE), [cond], timeout)
            jr["outcomes"].append(o.as_dict())
            if o.status != "unsat":
                fail(o, "capped although solution<=1")
            w = C.witness(R, solver, "get_temperature/capped/twin:reachable", list(cond), timeout)
            jr["outcomes"].append(w.as_dict())
            if w.status != "sat":
                jr["inconclusive"].append({"query": w.name, "status": w.status})
        for ob in r.path.obligations:
            o3 = C.prove(R, solver, "get_temperature/obl:%s" % ob.kind, ob.cond, [r.path.condition(ob.n_dec, ob.n_asm)], timeout, kind="obligation")
            jr["outcomes"].append(o3.as_dict())
            if o3.status != "unsat":
                fail(o3, "obligation " + ob.kind)
    if kinds != {"solved", "capped"}:
        jr["inconclusive"].append({"get_temperature": "paths", "kinds": sorted(kinds)})
    jr["samples"].append({"kernel": "get_temperature", "claim": "sigmoid(T*max_value) == bound and T <= 1 on the uncapped path; 1 returned only when the solution exceeds 1; for all max_value > 0, 0 < bound < 1 (exact reals, log/exp as inverse functions)"})
    solver.close()
    return jr


def job_logabsdet(cfg):
    timeout = cfg["timeout"]
    R = sc.new_registry()
    solver = smt.Z3Proc()
    jr = C01.new_jr("logabsdet")
    from harness import transformkit as TK
    from symtorch import poly

    for n in cfg["sizes"]:
        M = stubs.named_tensor("m%d" % n, (n, n))
        det = TK.det_terms([[M.a[i, j].t for j in range(n)] for i in range(n)])
        ex = explore.Explorer(R, solver, assumptions=[tm.not_(tm.eq0(det))])
        res = ex.explore(lambda: torchutils.logabsdet(M))
        jr["paths"] += len(res)
        for r in res:
            if r.kind != "return":
                jr["inconclusive"].append({"logabsdet": n, "unexpected": str(r.exc)})
                continue
            E = sc.t_exp(r.value.a[()].t)
            g, size = poly.eq_goal(tm.mul(E, E), tm.mul(det, det))
            o = C.prove(R, solver, "logabsdet/%dx%d/exp(result)^2==det^2" % (n, n), g, [r.path.condition() + [tm.not_(tm.eq0(det))]], timeout)
            jr["outcomes"].append(o.as_dict())
            if o.status != "unsat":
                jr["inconclusive"].append({"query": o.name, "status": o.status})
    jr["samples"].append({"kernel": "logabsdet", "claim": "exp(logabsdet(M))^2 == det(M)^2 for symbolic M, det != 0"})
    solver.close()
    return jr


class _FakeMask:
    """stands for torch.zeros(features).byte() with a *symbolic* integer length: records the slice updates."""

    def __init__(self, n):
        self.n, self.ops = n, []

    def byte(self):
        return self

    def __getitem__(self, sl):
        return _FakeView(self, sl)

    def __setitem__(self, sl, v):
        if not (isinstance(v, _FakeView) and v.parent is self):
            raise explore.NotModelled("mask assignment")


class _FakeView:
    def __init__(self, parent, sl):
        self.parent, self.sl = parent, sl

    def __iadd__(self, k):
        self.parent.ops.append((self.sl, k))
        return self


class PyInt:
    """a symbolic stand-in for a python int argument: python's ==, //, %, +, comparisons on terms of sort I
    (S itself keeps identity equality because it lives in object arrays)."""

    def __init__(self, s_):
        self.s = s_ if isinstance(s_, S) else S(tm.const(int(s_), "I"))

    @staticmethod
    def _u(o):
        return o.s if isinstance(o, PyInt) else o

    def _w(self, r):
        return PyInt(r) if isinstance(r, S) and r.sort == "I" else (r if not isinstance(r, S) else _PyVal(r))

    def __floordiv__(self, o):
        return self._w(self.s // self._u(o))

    def __mod__(self, o):
        return self._w(self.s % self._u(o))

    def __add__(self, o):
        return self._w(self.s + self._u(o))

    __radd__ = __add__

    def __sub__(self, o):
        return self._w(self.s - self._u(o))

    def __rsub__(self, o):
        return self._w(self._u(o) - self.s)

    def __mul__(self, o):
        return self._w(self.s * self._u(o))

    __rmul__ = __mul__

    def __neg__(self):
        return self._w(-self.s)

    def __truediv__(self, o):
        return _PyVal(self.s / self._u(o))

    def __eq__(self, o):
        return _PyVal(self.s.eq(self._u(o)))

    def __ne__(self, o):
        return _PyVal(self.s.ne(self._u(o)))

    def __lt__(self, o):
        return _PyVal(self.s < self._u(o))

    def __le__(self, o):
        return _PyVal(self.s <= self._u(o))

    def __gt__(self, o):
        return _PyVal(self.s > self._u(o))

    def __ge__(self, o):
        return _PyVal(self.s >= self._u(o))

    def __hash__(self):
        return hash(self.s.t)

    def __index__(self):
        raise explore.NotModelled("a symbolic python int used as a concrete index / converted with int()")

    __int__ = __index__


class _PyVal:
    """a symbolic bool / real result of PyInt arithmetic."""

    def __init__(self, s_):
        self.s = s_

    def __bool__(self):
        return bool(self.s)

    def __round__(self, nd=None):
        raise explore.NotModelled("round() of a symbolic value")


def _int_term(v):
    if isinstance(v, PyInt):
        return v.s.t
    if isinstance(v, S):
        return v.t
    return tm.const(int(v), "I")


def mask_violation(jr, kind, f, even=None):
    call = {"kind": kind, "f": f, "even": even}
    rep = replay_mask(**call)
    sig = {"mask": kind}
    payload = {"property": PROP, "kernel": "create_%s_binary_mask" % kind, "relation": "mask-contents", "signature": sig, "replay_result": rep, "replay_call": {"fn": "harness.C20:replay_mask", "args": call}}
    if rep.get("reproduced"):
        if not any(v["signature"] == sig for v in jr["violations"]):
            jr["violations"].append({"kernel": payload["kernel"], "relation": "mask-contents", "signature": sig, "replay": C.write_replay(PROP, "mask_%s_%s" % (kind, f), payload), "detail": rep})
    else:
        jr["inconclusive"].append({"mask": kind, "f": f, "why": "mismatch not reproduced", "replay": rep})


def replay_mask(kind, f, even=None):
    res = {"reproduced": False}
    try:
        mid = (f + 1) // 2
        if kind == "alternating":
            m = torchutils.create_alternating_binary_mask(f, even=even).tolist()
            res["reproduced"] = m != [1 if (i % 2 == (0 if even else 1)) else 0 for i in range(f)]
        elif kind == "mid_split":
            m = torchutils.create_mid_split_binary_mask(f).tolist()
            res["reproduced"] = m != [1] * mid + [0] * (f - mid)
        else:
            torch.manual_seed(f)
            m = torchutils.create_random_binary_mask(f).tolist()
            res["reproduced"] = not (len(m) == f and all(v in (0, 1) for v in m) and sum(m) == mid)
        res["mask"] = m
    except Exception as e:  # noqa
        res["exception"] = "%s: %s" % (type(e).__name__, e)
        res["reproduced"] = True
    return res


def job_masks_symbolic_size(jr):
    """features is a symbolic integer >= 1 (no upper bound): the slice bounds / the number of drawn indices are integer
    terms and z3 (linear integer arithmetic with div/mod) decides  2*m - features in {0, 1}  i.e. m == ceil(features/2)."""
    R = sc.new_registry()
    solver = smt.Z3Proc()
    twins = []
    for kind in ("mid_split", "random", "alternating-even", "alternating-odd"):
        got = {}

        def run():
            f = PyInt(S(R.declare("features", sort="I", lo=0)))
            holder = {}

            def zeros(n, **kw):
                holder["mask"] = _FakeMask(n)
                return holder["mask"]

            def multinomial(input, num_samples, replacement=False, **kw):
                holder["num_samples"] = num_samples
                holder["replacement"] = replacement
                return "indices"

            class _W:
                def float(self):
                    return self

            with stubs.patched((torch, "zeros", zeros), (torch, "multinomial", multinomial), (torch, "ones", lambda n, **kw: _W())):
                if kind == "mid_split":
                    torchutils.create_mid_split_binary_mask(f)
                elif kind == "random":
                    torchutils.create_random_binary_mask(f)
                else:
                    torchutils.create_alternating_binary_mask(f, even=kind.endswith("even"))
            return f, holder

        ex = explore.Explorer(R, solver, max_paths=50)
        res = ex.explore(run)
        jr["paths"] += len(res)
        for pi, r in enumerate(res):
            qn = "symbolic-size/%s/path%d" % (kind, pi)
            if r.kind != "return":
                jr["inconclusive"].append({"query": qn, "why": "%s: %s" % (type(r.exc).__name__, r.exc)})
                continue
            f, holder = r.value
            cond = list(r.path.condition())
            mask = holder.get("mask")
            goal = None
            ft = f.s.t
            if mask is None or _int_term(mask.n) is not ft:
                goal = tm.FALSE
            elif kind == "mid_split":
                ok_shape = len(mask.ops) == 1 and isinstance(mask.ops[0][0], slice) and mask.ops[0][0].start is None and mask.ops[0][0].step is None and mask.ops[0][1] == 1
                if ok_shape:
                    m_ = _int_term(mask.ops[0][0].stop)
                    d = tm.sub(tm.scale(2, m_), ft)
                    goal = tm.and_(tm.ge(d, tm.const(0, "I")), tm.le(d, tm.const(1, "I")))
                else:
                    goal = tm.FALSE
            elif kind == "random":
                ok_shape = len(mask.ops) == 1 and mask.ops[0][0] == "indices" and mask.ops[0][1] == 1 and holder.get("replacement") is False
                if ok_shape:
                    d = tm.sub(tm.scale(2, _int_term(holder["num_samples"])), ft)
                    goal = tm.and_(tm.ge(d, tm.const(0, "I")), tm.le(d, tm.const(1, "I")))
                else:
                    goal = tm.FALSE
            else:
                want_start = 0 if kind.endswith("even") else 1
                sl = mask.ops[0][0] if len(mask.ops) == 1 else None
                goal = tm.TRUE if (isinstance(sl, slice) and sl.start == want_start and sl.stop is None and sl.step == 2 and mask.ops[0][1] == 1) else tm.FALSE
            o = C.prove(R, solver, qn, goal, [cond], 20)
            jr["outcomes"].append(dict(o.as_dict(), expect="unsat", kind="goal"))
            if kind == "mid_split" and goal is not tm.FALSE:
                # false claim (vacuity guard): the split point is floor(features / 2)
                o2 = C.prove(R, solver, qn + "/twin:floor", tm.eq(tm.scale(2, m_), tm.sub(ft, tm.imod(ft, 2))), [cond], 20)
                twins.append(o2.status)
                jr["outcomes"].append(dict(o2.as_dict(), expect=o2.status, kind="twin" if o2.status == "sat" else "goal"))
            if o.status == "sat":
                fv = None
                for t_, v_ in (o.model or {}).items():
                    if t_.op == "var" and t_.args[0] == "features":
                        fv = int(v_)
                fv = fv if fv and fv > 0 else 1
                base_kind = kind.split("-")[0]
                mask_violation(jr, base_kind, fv, even=kind.endswith("even") if base_kind == "alternating" else None)
            elif o.status != "unsat":
                jr["inconclusive"].append({"query": qn, "status": o.status})
    if "sat" not in twins and not jr["violations"]:
        jr["inconclusive"].append({"query": "symbolic-size/mid_split/twin", "why": "false claim (floor instead of ceil) not refuted on any path"})
    solver.close()


def job_masks(cfg):
    jr = C01.new_jr("mask-constructors")
    n = 0
    job_masks_symbolic_size(jr)
    # concrete cross-check of the same constructors on the real torch (small sizes)
    for f in range(1, cfg["maxf"] + 1):
        for even in (True, False):
            m = torchutils.create_alternating_binary_mask(f, even=even).tolist()
            ok = m == [1 if (i % 2 == (0 if even else 1)) else 0 for i in range(f)]
            n += 1
            rec(jr, "alternating(%d,%s)" % (f, even), ok) or mask_violation(jr, "alternating", f, even)
        m = torchutils.create_mid_split_binary_mask(f).tolist()
        mid = (f + 1) // 2
        ok = m == [1] * mid + [0] * (f - mid)
        n += 1
        rec(jr, "mid_split(%d)" % f, ok) or mask_violation(jr, "mid_split", f)
    # random mask: the multinomial draw is an arbitrary tuple of distinct indices (symbolic ints, forked)
    R = sc.new_registry()
    solver = smt.Z3Proc()
    real_zeros = torch.zeros
    for f in range(1, cfg["maxf_random"] + 1):
        want = (f + 1) // 2

        def multinomial(input, num_samples, replacement=False, **kw):
            vs = []
            for i in range(num_samples):
                v = R.declare("idx%d_%d" % (f, i), sort="I", lo=-1, hi=f)
                vs.append(v)
            for a, b in itertools.combinations(vs, 2):
                explore.assume(tm.not_(tm.eq(a, b)))
            return Sym(_obj(np.array([S(v) for v in vs], dtype=object)))

        def zeros(*size, **kw):
            return Sym(_obj(np.zeros(tuple(int(s) for s in size), dtype=np.int64))) if len(size) == 1 else real_zeros(*size, **kw)

        def run():
            with stubs.patched((torch, "multinomial", multinomial), (torch, "zeros", zeros)):
                return torchutils.create_random_binary_mask(f)

        ex = explore.Explorer(R, solver, max_paths=5000)
        res = ex.explore(run)
        jr["paths"] += len(res)
        jr["prune_queries"] += ex.stats["prune_queries"]
        for r in res:
            if r.kind != "return":
                jr["inconclusive"].append({"random_mask": f, "unexpected": "%s: %s" % (type(r.exc).__name__, r.exc), "path": r.path.describe()[:4]})
                continue
            vals = [int(s.concrete()) for s in r.value.a.reshape(-1)]
            ok = len(vals) == f and all(v in (0, 1) for v in vals) and sum(vals) == want
            n += 1
            rec(jr, "random_mask(%d) draw %s" % (f, [c.args[0] for c, v, _ in r.path.decisions if v][:4]), ok, str(vals)) or mask_violation(jr, "random", f)
    jr["samples"].append({"kernel": "create_random_binary_mask", "features": 4, "claim": "for every tuple of distinct drawn indices the mask is 0/1 with ceil(f/2) ones"})
    solver.close()
    return jr


CROSSHAIR_SRC = '''
import importlib.util as _u

_spec = _u.spec_from_file_location("nflows_typechecks", "/repo/nflows/utils/typechecks.py")
tc = _u.module_from_spec(_spec)
_spec.loader.exec_module(tc)


def _spec_is_bool(x: bool) -> bool:
    """
    post: _ == True
    """
    return tc.is_bool(x)


def _spec_is_int(x: int) -> bool:
    """
    post: _ == True
    """
    return tc.is_int(x)


def _spec_positive(x: int) -> bool:
    """
    post: _ == (x > 0)
    """
    return tc.is_positive_int(x)


def _spec_nonnegative(x: int) -> bool:
    """
    post: _ == (x >= 0)
    """
    return tc.is_nonnegative_int(x)


def _spec_float_is_not_int(x: float) -> bool:
    """
    post: _ == False
    """
    return tc.is_positive_int(x) or tc.is_nonnegative_int(x) or tc.is_int(x)
'''


def job_typechecks(cfg):
    """CrossHair (symbolic execution of Python with z3) on the real predicates."""
    jr = C01.new_jr("typechecks")
    path = os.path.join("/tmp", "verif_c20_typechecks_%d.py" % os.getpid())
    with open(path, "w") as f:
        f.write(CROSSHAIR_SRC)
    env = dict(os.environ, PYTHONPATH="/repo")
    try:
        r = subprocess.run(["python3-vt", "-m", "crosshair", "check", "--report_all", "--per_condition_timeout", str(cfg["ch_timeout"]), path], capture_output=True, text=True, timeout=cfg["ch_timeout"] * 12 + 60, env=env)
        out = r.stdout + r.stderr
    except (subprocess.TimeoutExpired, FileNotFoundError) as e:
        out = "crosshair unavailable: %s" % e
    finally:
        if os.path.exists(path):
            os.unlink(path)
    confirmed = out.count("Confirmed over all paths")
    lines = [ln for ln in out.splitlines() if ln.strip()]
    jr["paths"] = len(lines)
    for ln in lines:
        st = "unsat" if "Confirmed over all paths" in ln else ("sat" if "error:" in ln and "false when" in ln.lower() else "unknown")
        jr["outcomes"].append({"name": "crosshair: " + ln.split(":", 3)[-1].strip()[:120], "kind": "goal", "status": st, "s": 0.0, "expect": "unsat"})
        if st != "unsat":
            jr["inconclusive"].append({"crosshair": ln[:300]})
    if confirmed < 5:
        jr["inconclusive"].append({"crosshair": "only %d of 5 contracts confirmed" % confirmed, "output": out[-600:]})
    # is_power_of_two uses bit operations (CrossHair: "Not confirmed"): exhaustive enumeration of a finite range
    bad = [n for n in range(-64, 1 << 13) if bool(typechecks.is_power_of_two(n)) != (n > 0 and bin(n).count("1") == 1)]
    bad += [v for v in (2.0, 4.5, "4", None) if typechecks.is_power_of_two(v)]
    jr["outcomes"].append({"name": "is_power_of_two on -64..8191 and non-ints (exhaustive)", "kind": "goal", "status": "unsat" if not bad else "sat", "s": 0.0, "expect": "unsat"})
    if bad:
        jr["inconclusive"].append({"is_power_of_two": bad[:5]})
    jr["samples"].append({"kernel": "typechecks", "contracts": 5, "confirmed": confirmed})
    return jr


def replay_call(fn, shape, n):
    res = {"reproduced": False}
    try:
        if fn == "searchsorted_mutation":
            k = torch.linspace(0, 1, shape[0])[None, :].clone()
            before = k.clone()
            torchutils.searchsorted(k, torch.tensor([0.5]))
            res["delta"] = float((k - before).abs().max())
            res["reproduced"] = res["delta"] > 0
            return res
        x = torch.arange(float(np.prod(shape))).reshape(shape)
        if fn == "repeat_rows":
            y = torchutils.repeat_rows(x, n)
            res["reproduced"] = not all(torch.equal(y[i * n + r], x[i]) for i in range(shape[0]) for r in range(n))
        elif fn == "tile":
            y = torchutils.tile(x, n)
            flat = x.reshape(-1)
            res["reproduced"] = not all(y[i * n + r] == flat[i] for i in range(flat.shape[0]) for r in range(n))
        elif fn == "merge_split":
            m = torchutils.merge_leading_dims(x, n)
            res["reproduced"] = not torch.equal(torchutils.split_leading_dim(m, shape[:n]), x)
        elif fn == "sum_except_batch":
            y = torchutils.sum_except_batch(x, n)
            res["shape"] = list(y.shape)
            res["reproduced"] = list(y.shape) != list(shape[:n])
    except Exception as e:  # noqa
        res["exception"] = "%s: %s" % (type(e).__name__, e)
    return res


def job(cfg):
    return {"shapes": job_shapes, "searchsorted": job_searchsorted_real, "cbrt": job_cbrt, "temperature": job_temperature, "logabsdet": job_logabsdet, "masks": job_masks, "typechecks": job_typechecks, "fp": C17.job_fp}[cfg["type"]](cfg)


def configs(tier):
    t = 60 if tier == "quick" else 300
    q = tier == "quick"
    cfgs = [
        {"type": "shapes", "maxd": 3 if q else 4},
        {"type": "cbrt", "timeout": t},
        {"type": "temperature", "timeout": t},
        {"type": "logabsdet", "timeout": t, "sizes": (1, 2) if q else (1, 2, 3, 4)},
        {"type": "masks", "maxf": 8, "maxf_random": 4 if q else 6},
        {"type": "typechecks", "ch_timeout": 10 if q else 30},
    ]
    for K in ((1, 2, 3) if q else (1, 2, 3, 4, 5, 6, 7, 8)):
        cfgs.append({"type": "searchsorted", "K": K, "timeout": t})
    for prec in ("F32", "F64"):
        for K in ((2,) if q else (1, 2, 3, 4)):
            cfgs.append({"type": "fp", "prec": prec, "scenario": "box", "K": K, "timeout": t})
    return cfgs


def main():
    rep = C.Report(PROP)
    cfgs = configs(C.TIER)
    rep.functions = C.source_hash([torchutils.tile, torchutils.repeat_rows, torchutils.merge_leading_dims, torchutils.split_leading_dim, torchutils.sum_except_batch, torchutils.searchsorted, torchutils.cbrt, torchutils.get_temperature, torchutils.logabsdet, torchutils.create_alternating_binary_mask, torchutils.create_mid_split_binary_mask, torchutils.create_random_binary_mask, typechecks])
    rep.bounds = {"shapes": "all shapes with <= %d dims of size <= %d (<= 96 elements), repetitions <= 3" % ((3, 3) if C.TIER == "quick" else (4, 4)), "searchsorted_bins": sorted({c["K"] for c in cfgs if c["type"] == "searchsorted"}), "mask_features": "split point / draw count / slice bounds: every integer features >= 1 (symbolic, unbounded); mask contents on real torch: 1..8 (random: 1..%d, every tuple of distinct indices)" % max(c.get("maxf_random", 0) for c in cfgs), "logabsdet": "1x1..%dx%d symbolic matrices" % ((max(max(c.get("sizes", (0,))) for c in cfgs),) * 2)}
    rep.assumptions = [
        "exact reals for cbrt/logabsdet/searchsorted(real); IEEE claim only for the bin index",
        "get_temperature: max_value > 0 and 0 < bound < 1 symbolic reals (exact arithmetic; log/exp as mutually inverse functions); gaussian_kde_log_eval is checked under C05",
        "typechecks: CrossHair's 'Confirmed over all paths' verdict for int / float / object arguments",
        "cbrt at exactly 0 evaluates log(0): the claim is for x != 0 (both signs)",
    ]
    rep.stubs = ["torch.multinomial -> arbitrary distinct symbolic indices", "torch.Tensor([scalar]) inside get_temperature -> one-element symbolic tensor (module-level torch proxy)", "torch.zeros(n) -> symbolic zero vector inside create_random_binary_mask"]
    for jr in C.run_jobs(job, cfgs):
        rep.add_job(jr)
    sys.exit(rep.finish("the real helpers executed on symbolic tensors; index formulas as term identities, searchsorted bracket / cbrt / logabsdet by z3 (QF_NRA, QF_FP), mask constructors over all symbolic draws, type predicates by CrossHair"))


if __name__ == "__main__":
    main()
