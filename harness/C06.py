"""C06 - MADE conditioners are strictly autoregressive for every architecture and weight.

Both copies of MADE (nflows.transforms.made, nflows.nn.nde.made, incl. MixtureOfGaussiansMADE) are built by
their real constructors and their real `forward` runs on *taint* elements: an element records as Boolean
terms which inputs it may depend on; weights, biases and the context are "arbitrary" (never known to be zero),
`weight * mask` clears the taint where the mask is zero, sums join taints, activations / batch-norm / dropout
keep them.  With random masks `torch.randint` is stubbed to return symbolic integer degrees constrained only to
the [low, high) range the code passed (low may itself be symbolic), so the masks are Boolean terms over the
degrees and z3 (QF_LIA) decides the claim for every draw at once.

Claim per network:  output unit o (feature o // multiplier) is not tainted by any input j >= o // multiplier.
Vacuity twin:       the weaker layout claim "unit o is not tainted by inputs j >= o // multiplier + 1 ... " must
                    fail somewhere, i.e. some unit really depends on input (feature - 1).
"""
import itertools
import sys

import numpy as np
import torch
from torch.nn import functional as F

from harness import common as C
from harness import C01
from symtorch import term as tm, scalars as sc, smt, explore, stubs
from symtorch.tensor import Sym, _obj, CFG
from symtorch.taint import TS
from symtorch.scalars import S

from nflows.transforms import made as made_t
from nflows.nn.nde import made as made_n

PROP = "C06"


def sym_min(*args):
    """If-building replacement for the builtin `min` inside the MADE modules (harness-side, no source edit):
    the random-mask code takes min() of a symbolic degree and an int."""
    if len(args) == 1:
        args = tuple(args[0])
    if not any(isinstance(a, (S, Sym)) for a in args):
        import builtins

        return builtins.min(*args)
    vals = [a.a.reshape(-1)[0] if isinstance(a, Sym) else S.of(a) for a in args]
    r = vals[0]
    for v in vals[1:]:
        r = sc.s_min(r, v)
    return r


def randint_stub(counter):
    def randint(low=0, high=None, size=None, dtype=None, **kw):
        R = sc.reg()
        n = int(size[0]) if isinstance(size, (list, tuple)) else int(size)
        lo = low.a.reshape(-1)[0].t if isinstance(low, Sym) else (low.t if isinstance(low, S) else tm.const(int(low), "I"))
        hi = tm.const(int(high), "I")
        out = np.empty((n,), dtype=object)
        for i in range(n):
            counter[0] += 1
            v = R.declare("deg%d" % counter[0], sort="I")
            R.add_axiom(v, tm.le(lo, v))
            R.add_axiom(v, tm.lt(v, hi))
            out[i] = S(v)
        return Sym(out)

    return randint


def taint_params(module, n_inputs):
    """weights / biases / batch-norm statistics become arbitrary (untainted, not known to be zero) values."""
    for m in module.modules():
        for pname, p in list(m._parameters.items()):
            if p is None:
                continue
            arr = np.empty(tuple(p.shape), dtype=object)
            arr.fill(TS.arbitrary(n_inputs))
            m._parameters[pname] = Sym(arr)
        for bname, b in list(m._buffers.items()):
            if b is None or isinstance(b, Sym):
                continue
            if bname in ("running_mean", "running_var"):
                arr = np.empty(tuple(b.shape), dtype=object)
                arr.fill(TS.arbitrary(n_inputs))
                m._buffers[bname] = Sym(arr)


def build(cfg, counter):
    mod = made_t if cfg["copy"] == "transforms" else made_n
    kw = dict(
        features=cfg["F"], hidden_features=cfg["H"], context_features=cfg["ctx"], num_blocks=cfg["blocks"],
        use_residual_blocks=cfg["residual"], random_mask=cfg["random"], activation=F.relu,
        dropout_probability=cfg["dropout"], use_batch_norm=cfg["bn"],
    )
    if cfg.get("mog"):
        net = mod.MixtureOfGaussiansMADE(num_mixture_components=cfg["mult"], custom_initialization=False, **kw)
        mult = 3 * cfg["mult"]
    else:
        net = mod.MADE(output_multiplier=cfg["mult"], **kw)
        mult = cfg["mult"]
    return net, mult


def job(cfg):
    timeout = cfg["timeout"]
    R = sc.new_registry()
    solver = smt.Z3Proc()
    mod = made_t if cfg["copy"] == "transforms" else made_n
    name = "MADE[%s]/F=%d,H=%d,blocks=%d,%s,%s,ctx=%s,mult=%d,bn=%s,drop=%s%s" % (
        cfg["copy"], cfg["F"], cfg["H"], cfg["blocks"], "residual" if cfg["residual"] else "feedforward", "random" if cfg["random"] else "sequential",
        cfg["ctx"], cfg["mult"], cfg["bn"], cfg["dropout"], (",MoG" if cfg.get("mog") else "") + (",weights-replaced-after-a-first-pass" if cfg.get("reweight") else "") + (",training" if cfg.get("train") else ""))
    jr = C01.new_jr("MADE[%s]" % cfg["copy"])
    jr["paths"] = 1
    sc.BOOL_TO_NUM[0] = "ite"
    counter = [0]
    Fn = cfg["F"]
    try:
        torch.manual_seed(C.SEED)
        with stubs.patched((torch, "randint", randint_stub(counter)), (mod, "min", sym_min)):
            try:
                net, mult = build(cfg, counter)
            except (ValueError, RuntimeError) as e:
                # constructor refusals (residual blocks with random masks / decreasing degrees) are part of the contract
                expected = cfg["residual"] and cfg["random"]
                jr["outcomes"].append({"name": name + "/constructor-refuses", "kind": "goal", "status": "unsat" if expected else "sat", "s": 0.0, "expect": "unsat", "detail": str(e)[:100]})
                if not expected:
                    jr["inconclusive"].append({"query": name, "why": "constructor raised unexpectedly: %s" % e})
                return jr
        if cfg["residual"] and cfg["random"]:
            jr["inconclusive"].append({"query": name, "why": "constructor accepted residual blocks with random masks"})
            return jr
        net.eval() if not cfg.get("train") else net.train()
        taint_params(net, Fn)
        x = np.empty((1, Fn), dtype=object)
        for j in range(Fn):
            x[0, j] = TS.input(Fn, j)
        ctx = None
        if cfg["ctx"] is not None:
            c = np.empty((1, cfg["ctx"]), dtype=object)
            c.fill(TS.arbitrary(Fn))
            ctx = Sym(c)
        with stubs.torch_patches(random=False):
            if cfg.get("reweight"):
                # "every weight" includes weights that arrive after the network has already been evaluated (a loaded
                # state dict, an optimiser step): one pass, all parameters replaced by new arbitrary values, then the
                # pass that is judged
                net(Sym(x.copy()), ctx) if ctx is not None else net(Sym(x.copy()))
                taint_params(net, Fn)
            out = net(Sym(x), ctx) if ctx is not None else net(Sym(x))
    except explore.NotModelled as e:
        jr["inconclusive"].append({"query": name, "notmodelled": str(e)})
        return jr
    finally:
        sc.BOOL_TO_NUM[0] = "fork"
    o = out.a.reshape(-1)
    if o.shape[0] != Fn * mult:
        jr["inconclusive"].append({"query": name, "why": "output has %d units, expected %d" % (o.shape[0], Fn * mult)})
        return jr
    bad = []
    near = []
    for u in range(Fn * mult):
        i = u // mult
        e = o[u]
        if not isinstance(e, TS):
            jr["inconclusive"].append({"query": name, "why": "output element is not a taint value"})
            return jr
        for j in range(Fn):
            if j >= i:
                bad.append(e.dep[j])
            elif j == i - 1:
                near.append(e.dep[j])
    goal = tm.not_(tm.or_(*bad)) if bad else tm.TRUE
    o1 = C.prove(R, solver, name + "/no-unit-depends-on-input>=its-feature", goal, [[]], timeout, logic=None)
    jr["outcomes"].append(o1.as_dict())
    if o1.status == "sat":
        degs = {k.args[0]: int(v) for k, v in (o1.model or {}).items() if k.op == "var"}
        rep = replay(cfg, degs)
        payload = {"property": PROP, "kernel": jr["kernel"], "relation": "autoregressive", "signature": {k: cfg[k] for k in ("copy", "residual", "random")}, "cfg": cfg, "degrees": degs, "replay_result": rep,
                   "replay_call": {"fn": "harness.C06:replay", "args": {"cfg": cfg, "degs": degs}}}
        if rep.get("reproduced"):
            fn = "".join(ch if ch.isalnum() else "_" for ch in name)[:120]
            jr["violations"].append({"kernel": jr["kernel"], "relation": "autoregressive", "signature": {k: cfg[k] for k in ("copy", "residual", "random")}, "replay": C.write_replay(PROP, fn, payload), "detail": rep})
        else:
            jr["inconclusive"].append({"query": name, "why": "taint counterexample did not reproduce with real weights", "degrees": degs, "replay": rep})
    elif o1.status != "unsat":
        jr["inconclusive"].append({"query": name, "status": o1.status, "detail": o1.detail})
    # vacuity twin: some unit does depend on the input just before its feature (otherwise the taint is dead)
    if near and Fn > 1:
        w = C.witness(R, solver, name + "/twin:some-unit-depends-on-input(feature-1)", [tm.or_(*near)], min(timeout, 30))
        jr["outcomes"].append(w.as_dict())
        if w.status != "sat":
            jr["inconclusive"].append({"query": name + "/twin", "why": "no dependency reaches any output: taint propagation is vacuous", "status": w.status})
    if len(jr["samples"]) < 1:
        jr["samples"].append({"network": name, "symbolic_degrees": counter[0], "goal_size": tm.size(goal)})
    solver.close()
    return jr


def replay(cfg, degs):
    """real network, random weights, autograd Jacobian: an entry that should be zero is not."""
    res = {"reproduced": False}
    mod = made_t if cfg["copy"] == "transforms" else made_n
    torch.manual_seed(0)
    seq = [degs[k] for k in sorted(degs, key=lambda s: int(s[3:]))]
    it = iter(seq)
    real_randint = torch.randint

    def randint(low=0, high=None, size=None, dtype=None, **kw):
        n = int(size[0])
        vals = []
        for _ in range(n):
            try:
                vals.append(next(it))
            except StopIteration:
                vals.append(int(real_randint(low, high, (1,)).item()))
        return torch.tensor(vals, dtype=torch.long)

    try:
        with stubs.patched((torch, "randint", randint)):
            net, mult = build(cfg, [0])
        net.train() if cfg.get("train") else net.eval()
        x = torch.randn(1, cfg["F"], requires_grad=False)
        ctx = torch.randn(1, cfg["ctx"]) if cfg["ctx"] is not None else None
        if cfg.get("reweight"):
            with torch.no_grad():
                net(x, ctx) if ctx is not None else net(x)  # the earlier evaluation of the recorded history
        for p in net.parameters():
            with torch.no_grad():
                p.copy_(torch.randn_like(p))
        J = torch.autograd.functional.jacobian(lambda z: net(z, ctx) if ctx is not None else net(z), x)[0, :, 0, :]
        worst = 0.0
        for u in range(J.shape[0]):
            for j in range(cfg["F"]):
                if j >= u // mult:
                    worst = max(worst, abs(float(J[u, j])))
        res["max_forbidden_jacobian_entry"] = worst
        res["reproduced"] = worst > 0
    except Exception as e:  # noqa
        res["exception"] = "%s: %s" % (type(e).__name__, e)
    return res


def configs(tier):
    t = 60 if tier == "quick" else 600
    cfgs = []
    if tier == "quick":
        Fs, Hs, blocks, mults = (1, 2, 3, 4), (1, 2, 3, 5), (0, 1, 2), (1, 2)
    else:
        Fs, Hs, blocks, mults = (1, 2, 3, 4, 5, 6), (1, 2, 3, 4, 5, 6, 8), (0, 1, 2, 3), (1, 2, 3)
    for copy in ("transforms", "nde"):
        for Fn, H, b, mult in itertools.product(Fs, Hs, blocks, mults):
            for residual, random in ((True, False), (False, False), (False, True)):
                if random and (Fn * H * max(b, 1) > (40 if tier == "quick" else 72)):
                    continue
                for ctx in ((None, 2) if (H in (2, 3) and mult == 1) else (None,)):
                    for bn, drop in (((False, 0.0), (True, 0.5)) if (H == 3 and mult == 1) else ((False, 0.0),)):
                        cfgs.append({"copy": copy, "F": Fn, "H": H, "blocks": b, "mult": mult, "residual": residual, "random": random, "ctx": ctx, "bn": bn, "dropout": drop, "timeout": t})
        # the constructor must refuse residual blocks with random masks
        cfgs.append({"copy": copy, "F": 3, "H": 4, "blocks": 1, "mult": 1, "residual": True, "random": True, "ctx": None, "bn": False, "dropout": 0.0, "timeout": t})
        # weights replaced after a first evaluation (eval and training mode)
        for Fn, H, b in ((2, 2, 0), (3, 3, 1), (3, 4, 2)):
            for residual, random in ((True, False), (False, True)):
                for train in (False, True):
                    cfgs.append({"copy": copy, "F": Fn, "H": H, "blocks": b, "mult": 2, "residual": residual, "random": random, "ctx": None, "bn": False, "dropout": 0.0, "reweight": True, "train": train, "timeout": t})
    # mixture-of-Gaussians MADE (output multiplier 3 * components), nde copy only
    for Fn, H, comps in itertools.product((1, 2, 3) if tier == "quick" else (1, 2, 3, 4), (2, 4) if tier == "quick" else (2, 4, 6), (1, 2) if tier == "quick" else (1, 2, 3)):
        for residual, random in ((True, False), (False, True)):
            cfgs.append({"copy": "nde", "mog": True, "F": Fn, "H": H, "blocks": 1, "mult": comps, "residual": residual, "random": random, "ctx": 2, "bn": False, "dropout": 0.0, "timeout": t})
    return cfgs


def main():
    rep = C.Report(PROP)
    cfgs = configs(C.TIER)
    rep.functions = C.source_hash([made_t._get_input_degrees, made_t.MaskedLinear, made_t.MaskedFeedforwardBlock, made_t.MaskedResidualBlock, made_t.MADE, made_n._get_input_degrees, made_n.MaskedLinear, made_n.MaskedFeedforwardBlock, made_n.MaskedResidualBlock, made_n.MADE, made_n.MixtureOfGaussiansMADE])
    rep.bounds = {
        "features": sorted({c["F"] for c in cfgs}), "hidden": sorted({c["H"] for c in cfgs}), "blocks": sorted({c["blocks"] for c in cfgs}), "output_multiplier": sorted({c["mult"] for c in cfgs}),
        "block_types": ["residual", "feedforward"], "masks": ["sequential", "random (all draws, symbolic degrees)"], "context": [None, 2], "batch_norm/dropout": "on for H=3", "copies": ["nflows.transforms.made", "nflows.nn.nde.made (+MixtureOfGaussiansMADE)"],
        "networks": len(cfgs),
    }
    rep.assumptions = [
        "weights, biases, batch-norm statistics and the context are arbitrary values (never assumed zero): the claim is structural, for all weights",
        "activations, batch-norm and dropout act per unit (they do not mix units); custom activations that mix features are outside the claim",
        "sizes beyond the bound are outside the claim",
    ]
    rep.stubs = ["torch.randint -> symbolic integer degrees in the [low, high) range the code passes", "builtin min inside the MADE modules -> If-building min (harness-side name injection)"]
    for jr in C.run_jobs(job, cfgs):
        rep.add_job(jr)
    rep.extra["exhaustive"] = True
    sys.exit(rep.finish("taint execution of the real MADE constructors and forward passes; for random masks the degrees are symbolic integers and z3 (QF_LIA) decides the dependency claim for all draws; exhaustive over the listed architecture grid"))


if __name__ == "__main__":
    main()
