"""C03 - a flow's log_prob is a normalised probability density.

An integral is not an SMT term; the property itself names the equivalent that a solver can decide, and this check
is that decomposition (the two theorems it leans on are named assumptions: change of variables, Gaussian integral):

  (1) term identity   Flow._log_prob(x | c) is exactly  base_log_prob(T(x, E(c)) | E(c)) + logabsdet(x, E(c)) :
                      one term each, none missing, none extra, the embedded context routed to both
                      (real Flow code, uninterpreted transform / embedding; jobs of harness.C04)
  (2) onto            every 1-D transformer maps its domain onto the whole target: bounded splines map
                      left -> bottom and right -> top, are continuous across knots and strictly increasing
                      (intermediate value theorem => onto [bottom, top]); unconstrained ones are the identity outside
                      +-B and continuous at +-B (jobs of harness.C09); affine / leaky-ReLU / linear-family /
                      coupling / autoregressive maps accept every y in R^D in `inverse` and forward(inverse(y)) == y,
                      i.e. they are onto R^D (composed runs of harness.C02)
  (3) base            the base log-density is the Gaussian closed form with normaliser (D/2) log(2 pi) (harness.C05)
  (4) Jacobian        the log-abs-det is the log |det J| of the map computed: property C01 (its own check)
Data dimension 1-2, as in the property.
"""
import sys

from harness import common as C
from harness import C01, C02, C04, C05, C09
from harness import cases as CS
from harness import splinekit as SK

PROP = "C03"

ONTO_R = ["PointwiseAffine/scalar", "PointwiseAffine/vector", "LeakyReLU/2d", "LULinear/D=2", "QRLinear/D=2,H=2", "SVDLinear/D=2,H=2", "NaiveLinear/D=2", "ActNorm/2d", "BatchNorm/eval", "AffineCoupling/D=2", "AdditiveCoupling/D=3", "MaskedAffineAutoregressive/D=2", "Permutation/[1,0]", "IdentityTransform", "CauchyCDFInverse/2d", "Logit/2d"]
CACHED = ["NaiveLinear/D=2,cached,inverse-first", "LULinear/D=2,cached,inverse-first"]
# (4) is C01's check; the configurations a density integral is most sensitive to and the defaults hide are repeated here
JACOBIAN = ["AffineCoupling/uncond-affine", "Sigmoid/2d"]


def job(cfg):
    src = cfg["from"]
    sub = dict(cfg["cfg"])
    if src == "C04":
        jr = C04.job(sub)
    elif src == "C09":
        jr = C09.job(sub)
    elif src == "C02":
        jr = C02.job(sub)
    elif src == "C01":
        jr = C01.job(sub)
    else:
        jr = C05.job(sub)
    jr["kernel"] = "%s:%s" % (cfg["part"], jr.get("kernel"))
    # violations found here are violations of the sub-lemma's own property as well; re-label them for C03
    for v in jr.get("violations", []):
        v["signature"] = dict(v.get("signature", {}), part=cfg["part"])
    return jr


def configs(tier):
    t = 60 if tier == "quick" else 300
    cfgs = []
    for base in ("StandardNormal", "ConditionalDiagonalNormal"):
        for emb in (False, True):
            for k in ([None] if base == "StandardNormal" and not emb else []) + [2]:
                for D in (1, 2):
                    cfgs.append({"from": "C04", "part": "(1) log_prob == base + logabsdet", "cfg": {"base": base, "emb": emb, "k": k, "n": 1, "D": D, "timeout": t}})
    Ks = (1, 2) if tier == "quick" else (1, 2, 3)
    for kind in SK.KINDS:
        for K in Ks:
            for mode in ("box", "tails"):
                if kind == "quadratic" and mode == "tails" and K == 1:
                    continue
                cfgs.append({"from": "C09", "part": "(2) transformer onto its target interval", "cfg": {"kind": kind, "K": K, "mode": mode, "box": "sym", "timeout": t, "nval": 2, "bughunt": K == 3 and kind != "linear"}})
    # non-default, mutually different floors (min_bin_width != min_bin_height): the heights must still fill the box
    for kind in ("rq", "quadratic", "cubic"):
        cfgs.append({"from": "C09", "part": "(2) transformer onto its target interval", "cfg": {"kind": kind, "K": 2, "mode": "box", "box": "unit", "floors": True, "timeout": t, "nval": 2}})
    for name in ONTO_R + CACHED:
        cfgs.append({"from": "C02", "part": "(2) onto R^D: inverse total and forward(inverse(y)) == y", "cfg": {"type": "module", "case": name, "order": "fi", "timeout": t}})
    # (4) for the history the property's sampling path takes: evaluation mode, weight cache on, an inverse pass
    # (sample) first, then log_prob - the forward log-abs-det then comes out of the shared cache
    for name in CACHED:
        cfgs.append({"from": "C01", "part": "(4) log-abs-det after a cached inverse pass", "cfg": {"type": "module", "case": name, "timeout": t}})
    for name in JACOBIAN:
        cfgs.append({"from": "C01", "part": "(4) log-abs-det of non-default configurations (unconditional coupling stage, temperature)", "cfg": {"type": "module", "case": name, "timeout": t}})
    for kind in ("StandardNormal", "DiagonalNormal", "ConditionalDiagonalNormal"):
        for shape in ([1], [2]):
            cfgs.append({"from": "C05", "part": "(3) base normaliser", "cfg": {"type": "normal", "kind": kind, "shape": shape, "timeout": t}})
    return cfgs


def main():
    rep = C.Report(PROP)
    cfgs = configs(C.TIER)
    from nflows.flows import base as FB
    from nflows.distributions import normal as DN

    rep.functions = C.source_hash([FB.Flow._log_prob, DN.StandardNormal._log_prob, DN.DiagonalNormal._log_prob, DN.ConditionalDiagonalNormal._log_prob] + SK.ENCODED)
    rep.bounds = {"parts": sorted({c["part"] for c in cfgs}), "data_dimension": "1-2", "spline_bins": sorted({c["cfg"]["K"] for c in cfgs if c["from"] == "C09"}), "onto_R_cases": ONTO_R}
    rep.assumptions = [
        "change-of-variables theorem: a bijection T of the data space onto the support of the base with Jacobian J turns the base density p into p(T(x)) |det J(x)|, which integrates to one",
        "the Gaussian integral (normaliser (2 pi)^(D/2) prod sigma)",
        "intermediate value theorem: continuous, strictly increasing, end-points mapped to end-points => onto the target interval",
        "the Jacobian claim (4) is property C01's own check",
        "flows whose transform is a library bijection onto a proper subset of the base support (e.g. Exp in front of a Gaussian) are ill-formed compositions, not code defects, and are not flagged",
        "the integral itself is not computed by the solver; the replay oracle of the base part integrates numerically",
    ]
    rep.stubs = ["as in C02 / C04 / C05 / C09"]
    for jr in C.run_jobs(job, cfgs):
        rep.add_job(jr)
    sys.exit(rep.finish("decomposition of 'integrates to one' into solver-decidable lemmas: the log_prob term identity of the real Flow code, onto-ness of every transformer (end-points, continuity, monotonicity; total inverse with forward(inverse(y)) == y), Gaussian closed form of the base; each lemma decided by z3 on the real code"))


if __name__ == "__main__":
    main()
