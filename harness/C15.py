"""C15 - saving and reloading a model reproduces the same function.

For each class with constructor-time randomness or non-parameter state, model A is built with the real constructor
under seed s1 (optionally after a training-mode forward / data-dependent initialisation) and model B under seed s2;
`B.load_state_dict(A.state_dict())` uses the real methods.  Then every floating-point entry of the state dict is
replaced *in both models by the same fresh symbols* (so the claim covers all parameter values), everything that is
not in the state dict stays as each model has it, and the real forward / inverse / log_prob run on a symbolic input.
z3 decides  A(x) == B(x)  (outputs and log-abs-dets).  Anything function-determining that does not travel in the
state dict - a permutation kept as a plain attribute, a non-persistent buffer, a mask derived from an RNG at
construction - makes the two term sets differ.
"""
import sys

import numpy as np
import torch
from torch.nn import functional as F

from harness import common as C
from harness import C01
from harness import transformkit as TK
from symtorch import term as tm, scalars as sc, smt, explore, stubs, poly
from symtorch.scalars import S
from symtorch.tensor import Sym, _obj, CFG

from nflows import transforms as T
from nflows.transforms import permutations as PM, coupling as CP, autoregressive as AR, normalization as NM, nonlinearities as NL, standard as ST, conv as CV, made as made_t, lu as LU
from nflows.transforms import base as TB
from nflows.flows import autoregressive as FA, realnvp as FR
from nflows.distributions import normal as DN, mixture as DM
from nflows.nn.nde import made as made_n
from nflows.nn import nets

PROP = "C15"


def _resnet(i, o):
    return nets.ResidualNet(i, o, hidden_features=2, num_blocks=1)


MODELS = {
    "RandomPermutation": (lambda: PM.RandomPermutation(4), (4,), None),
    "Permutation": (lambda: PM.Permutation(torch.randperm(3)), (3,), None),
    "OneByOneConvolution": (lambda: CV.OneByOneConvolution(3), (3, 1, 1), None),
    "MaskedAffineAutoregressive/random-mask": (lambda: AR.MaskedAffineAutoregressiveTransform(3, 4, num_blocks=1, use_residual_blocks=False, random_mask=True), (3,), None),
    "MaskedAffineAutoregressive/sequential": (lambda: AR.MaskedAffineAutoregressiveTransform(2, 3, num_blocks=1), (2,), None),
    "AffineCoupling/random-mask": (lambda: CP.AffineCouplingTransform(torch.randperm(3).float() - 0.5, _resnet), (3,), None),
    "BatchNorm/after-training": (lambda: NM.BatchNorm(2), (2,), "bn_train"),
    "ActNorm/after-init": (lambda: NM.ActNorm(2), (2,), "actnorm_init"),
    "ActNorm/fresh": (lambda: NM.ActNorm(2), (2,), None),
    "Sigmoid/learned-temperature": (lambda: NL.Sigmoid(temperature=float(torch.rand(1)) + 0.5, learn_temperature=True), (2,), None),
    "Sigmoid/buffer-temperature": (lambda: NL.Sigmoid(temperature=float(torch.rand(1)) + 0.5), (2,), None),
    "PointwiseAffine": (lambda: ST.PointwiseAffineTransform(shift=torch.randn(2), scale=torch.rand(2) + 0.5), (2,), None),
    "PiecewiseRationalQuadraticCDF": (lambda: NL.PiecewiseRationalQuadraticCDF(shape=[1], num_bins=1, tails="linear", tail_bound=2.0), (1,), None),
    "LULinear/random-init": (lambda: LU.LULinear(2, identity_init=False), (2,), None),
    "Composite(RandomPermutation,LU,RandomPermutation)": (lambda: TB.CompositeTransform([PM.RandomPermutation(3), LU.LULinear(3), PM.RandomPermutation(3)]), (3,), None),
    "MaskedAutoregressiveFlow": (lambda: FA.MaskedAutoregressiveFlow(2, 3, num_layers=1, num_blocks_per_layer=1, use_random_permutations=True, use_random_masks=False, batch_norm_between_layers=True), (2,), "flow"),
    "MaskedAutoregressiveFlow/random-masks": (lambda: FA.MaskedAutoregressiveFlow(3, 4, num_layers=1, num_blocks_per_layer=1, use_residual_blocks=False, use_random_masks=True, use_random_permutations=True), (3,), "flow"),
    "MADEMoG/random-mask": (lambda: DM.MADEMoG(3, 4, None, num_blocks=1, num_mixture_components=1, use_residual_blocks=False, random_mask=True), (3,), "dist"),
    "MADEMoG/sequential,2-components": (lambda: DM.MADEMoG(2, 3, None, num_blocks=1, num_mixture_components=2), (2,), "dist"),
    "nde.MADE/random-mask": (lambda: made_n.MADE(3, 4, num_blocks=1, output_multiplier=2, use_residual_blocks=False, random_mask=True), (3,), "net"),
    "SimpleRealNVP": (lambda: FR.SimpleRealNVP(2, 2, num_layers=2, num_blocks_per_layer=1, batch_norm_between_layers=True), (2,), "flow"),
}


def warm_up(m, history, in_shape):
    """the receiving model has already been used (evaluation-mode passes in both directions / log_prob and sample)
    before the checkpoint is loaded into it: anything it memoised from its own state must not survive the load"""
    m.eval()
    x = torch.rand((2,) + tuple(in_shape)) * 0.8 + 0.1
    with torch.no_grad():
        for f in ((lambda: m.log_prob(x)), (lambda: m.sample(1))) if history in ("flow", "dist") else ((lambda: m(x)),) if history == "net" else ((lambda: m(x)), (lambda: m.inverse(x))):
            try:
                f()
            except Exception:  # noqa  (no inverse / outside the domain: nothing memoised on that route)
                pass


def prepare(fac, history, seed):
    torch.manual_seed(seed)
    m = fac()
    if history == "bn_train":
        m.train()
        m(torch.randn(5, 2) * 2 + 1)
        m.eval()
    elif history == "actnorm_init":
        m.train()
        m(torch.randn(5, 2) * 2 + 1)
        m.eval()
    elif history == "flow":
        m.train()
        m.log_prob(torch.randn(6, m._distribution._shape[0]))
        m.eval()
    else:
        m.eval()
    return m


def share_symbols(A, Bm):
    """replace every floating-point state-dict entry in both models by the same symbols"""
    keys = []
    for (ka, va), (kb, vb) in zip(A.state_dict().items(), Bm.state_dict().items()):
        assert ka == kb
        if va.is_floating_point():
            keys.append(ka)
    for m in (A, Bm):
        for mn, mod in m.named_modules():
            for store in (mod._parameters, mod._buffers):
                for pn, p in list(store.items()):
                    if p is None or isinstance(p, Sym):
                        continue
                    key = (mn + "." if mn else "") + pn
                    if key in keys and not (store is mod._buffers and pn in getattr(mod, "_non_persistent_buffers_set", ())):
                        positive = pn in ("running_var",) or (pn == "temperature")
                        store[pn] = stubs.named_tensor("sd_" + key.replace(".", "_"), tuple(p.shape), free=(store is mod._parameters), lo=0 if positive else None)
    return keys


WARM = [False]


def job(cfg):
    name, s1, s2 = cfg["model"], cfg["seed_a"], cfg["seed_b"]
    WARM[0] = bool(cfg.get("warm"))
    fac, in_shape, history = MODELS[name]
    timeout = cfg["timeout"]
    R = sc.new_registry()
    solver = smt.Z3Proc()
    jr = C01.new_jr(name)
    tag = "%s/seeds(%d,%d)%s" % (name, s1, s2, "/loaded-into-a-used-model" if cfg.get("warm") else "")
    CFG.simplex_shortcut = True
    try:
        A = prepare(fac, history, s1)
        Bm = prepare(fac, None if history in ("bn_train", "actnorm_init") else history, s2)
        if cfg.get("warm"):
            warm_up(Bm, history, in_shape)
        missing = Bm.load_state_dict(A.state_dict())
        if not cfg.get("warm"):
            Bm.eval()  # (a used model is already in evaluation mode; calling eval() again could hide a stale memo)
        with stubs.torch_patches(random=False):
            R.begin_run()
            share_symbols(A, Bm)
            x = stubs.named_tensor("x", (2,) + in_shape, lo=0 if "Piecewise" in name else None, hi=None)
            is_flow = history == "flow"
            calls = [("log_prob", lambda m: (m.log_prob(x),))] if history in ("flow", "dist") else [("forward", lambda m: (m(x),))] if history == "net" else [("forward", lambda m: m(x)), ("inverse", lambda m: m.inverse(x))]
            if is_flow:
                calls.append(("transform_to_noise", lambda m: (m.transform_to_noise(x),)))
            for cname, call in calls:
                holder = {}

                def both():
                    return call(A), call(Bm)

                ex = explore.Explorer(R, solver, decide_timeout=8.0, max_paths=200)
                results = ex.explore(both)
                jr["paths"] += len(results)
                jr["prune_queries"] += ex.stats["prune_queries"]
                n_ret = 0
                for i, r in enumerate(results):
                    if r.kind == "notmodelled":
                        jr["inconclusive"].append({"query": tag + "/" + cname, "notmodelled": str(r.exc)})
                        continue
                    if r.kind == "raise":
                        jr["exception_paths"] += 1
                        if cname == "inverse" and type(r.exc).__name__ in ("InputOutsideDomain",):
                            continue
                        jr["inconclusive"].append({"query": tag + "/" + cname, "raised": "%s: %s" % (type(r.exc).__name__, str(r.exc)[:120])})
                        continue
                    n_ret += 1
                    ra, rb = r.value
                    goals = []
                    shape_err = None
                    for ta, tb in zip(ra, rb):
                        if ta.a.shape != tb.a.shape:
                            shape_err = "shapes %s vs %s" % (ta.a.shape, tb.a.shape)
                            break
                        for a, b in zip(ta.a.reshape(-1), tb.a.reshape(-1)):
                            if a.t is b.t:
                                continue
                            g, _ = poly.eq_goal(a.t, b.t)
                            goals.append(g)
                    if shape_err:
                        st = "sat"
                    elif not goals:
                        st = "unsat"
                    else:
                        o = C.prove(R, solver, "%s/%s/path%d/A(x)==B(x)" % (tag, cname, i), tm.and_(*goals), [r.path.condition()], timeout)
                        st = o.status
                        jr["outcomes"].append(o.as_dict())
                    if st == "unsat" and not goals:
                        jr["outcomes"].append({"name": "%s/%s/path%d/A(x)==B(x)" % (tag, cname, i), "kind": "goal", "status": "unsat", "s": 0.0, "expect": "unsat", "rung": "syntactic"})
                    if st == "sat":
                        report(jr, name, s1, s2, cname, shape_err or "reloaded model computes different terms")
                    elif st != "unsat":
                        jr["inconclusive"].append({"query": "%s/%s/path%d" % (tag, cname, i), "status": st})
                if n_ret == 0:
                    jr["inconclusive"].append({"query": tag + "/" + cname, "why": "no returning path"})
        jr["samples"].append({"model": name, "seeds": [s1, s2], "state_dict_keys": list(A.state_dict().keys())[:8]})
    except explore.NotModelled as e:
        jr["inconclusive"].append({"query": tag, "notmodelled": str(e)})
    solver.close()
    return jr


def report(jr, name, s1, s2, cname, err):
    if jr["violations"]:
        return
    with stubs.real_torch():
        rep = replay(name, s1, s2, warm=WARM[0])
    sig = {"model": name.split("/")[0]}
    payload = {"property": PROP, "kernel": name, "relation": "reload-reproduces-function", "signature": sig, "error": err, "replay_result": rep, "replay_call": {"fn": "harness.C15:replay", "args": {"name": name, "s1": s1, "s2": s2, "warm": WARM[0]}}}
    if rep.get("reproduced"):
        fn = "".join(ch if ch.isalnum() else "_" for ch in "%s_%d_%d" % (name, s1, s2))[:100]
        jr["violations"].append({"kernel": name, "relation": "reload-reproduces-function", "signature": sig, "replay": C.write_replay(PROP, fn, payload), "detail": rep})
    else:
        jr["inconclusive"].append({"query": name + "/" + cname, "why": "symbolic difference not reproduced on real tensors", "error": err, "replay": rep})


def replay(name, s1, s2, warm=False):
    res = {"reproduced": False}
    try:
        fac, in_shape, history = MODELS[name]
        A = prepare(fac, history, s1)
        Bm = prepare(fac, None if history in ("bn_train", "actnorm_init") else history, s2)
        if warm:
            warm_up(Bm, history, in_shape)
        Bm.load_state_dict(A.state_dict())
        if not warm:
            Bm.eval()
        torch.manual_seed(99)
        x = torch.rand((4,) + in_shape) * 0.8 + 0.1
        with torch.no_grad():
            if history == "net":
                worst = float((A(x) - Bm(x)).abs().max())
            elif history in ("flow", "dist"):
                a, b = A.log_prob(x), Bm.log_prob(x)
                worst = float((a - b).abs().max())
            else:
                ya, la = A(x)
                yb, lb = Bm(x)
                worst = max(float((ya - yb).abs().max()), float((la - lb).abs().max()))
                try:
                    # the inverse direction on the same values (ya lies in the range of A)
                    xa, lia = A.inverse(ya)
                    xb, lib = Bm.inverse(ya)
                    res["inverse_difference"] = max(float((xa - xb).abs().max()), float((lia - lib).abs().max()))
                    worst = max(worst, res["inverse_difference"])
                except Exception as e:  # noqa  (transforms without an inverse)
                    res["inverse_skipped"] = "%s: %s" % (type(e).__name__, e)
        res["max_difference"] = worst
        res["reproduced"] = worst > 0
    except Exception as e:  # noqa
        res["exception"] = "%s: %s" % (type(e).__name__, e)
    return res


def configs(tier):
    t = 60 if tier == "quick" else 300
    pairs = [(1, 2), (3, 7)] if tier == "quick" else [(1, 2), (3, 7), (11, 5), (21, 34), (8, 13), (2, 1), (55, 89), (100, 7), (17, 17), (1234, 4321), (6, 28), (31, 127)]
    cfgs = []
    for name in MODELS:
        for a, b in pairs:
            cfgs.append({"model": name, "seed_a": a, "seed_b": b, "timeout": t})
        cfgs.append({"model": name, "seed_a": pairs[0][0], "seed_b": pairs[0][1], "warm": True, "timeout": t})
    return cfgs


def main():
    rep = C.Report(PROP)
    cfgs = configs(C.TIER)
    rep.functions = C.source_hash([PM.Permutation, PM.RandomPermutation, made_t.MaskedLinear, made_n.MaskedLinear, made_n.MixtureOfGaussiansMADE, DM.MADEMoG, CP.CouplingTransform, NM.BatchNorm, NM.ActNorm, NL.Sigmoid, ST.PointwiseAffineTransform, CV.OneByOneConvolution, FA.MaskedAutoregressiveFlow, FR.SimpleRealNVP, DN.StandardNormal])
    rep.bounds = {"models": list(MODELS), "seed_pairs": sorted({(c["seed_a"], c["seed_b"]) for c in cfgs}), "histories": ["fresh", "checkpoint loaded into a model that has already been evaluated (both directions / log_prob and sample)", "after a training-mode forward (BatchNorm running statistics, flows)", "after data-dependent initialisation (ActNorm)"], "inputs": "2 symbolic rows"}
    rep.assumptions = ["constructor seeds are sampled (a few pairs); parameter values and inputs are symbolic", "non-floating-point state (permutations, masks, degrees, flags) is whatever the real constructors / load_state_dict leave in each model"]
    rep.stubs = ["floating-point state-dict entries replaced by shared symbols in both models"]
    for jr in C.run_jobs(job, cfgs):
        rep.add_job(jr)
    sys.exit(rep.finish("two independently constructed real models, the second loaded from the first with the real state-dict methods, floating-point state shared symbolically; A(x) == B(x) decided per path by z3 (polynomial identity) for forward, inverse and log_prob"))


if __name__ == "__main__":
    main()
