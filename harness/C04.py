"""C04 - samples and densities of a flow agree, row by row (the structural half).

The real `Flow._sample`, `Flow.sample_and_log_prob`, `Flow._log_prob`, `Flow.transform_to_noise` and the real base
distributions run with
  * `torch.randn` stubbed to fresh symbols (every noise draw is a distinct symbol),
  * the transform an uninterpreted row-wise bijection  T(x, c) / T^-1(z, c)  with uninterpreted log-dets, whose
    only axioms are  T(T^-1(z,c),c) = z,  lad_fwd(T^-1(z,c),c) = -lad_inv(z,c)  (applied as rewrites),
  * the embedding network an uninterpreted function E (or absent).
Claims, decided on the resulting terms for k context rows, n draws, D features:
  pairing     samples[i, j] == T^-1(noise_r, E(c_i)) for a noise draw r used exactly once, with *context row i*
  density     logp[i, j] == base_log_prob(noise_r | E(c_i)) - lad_inv(noise_r, E(c_i))   (same r, same i)
  agreement   flow.log_prob(samples[i, j], c_i) is the same term as logp[i, j]
  sample()    has the same structure as the samples of sample_and_log_prob
  noise       transform_to_noise(x, c) == T(x, E(c))
The statistical half (empirical distribution converges) follows from the structural result and randn ~ N(0, I); it
is a theorem, not something a solver samples.
"""
import sys

import numpy as np
import torch
from torch import nn

from harness import common as C
from harness import C01
from symtorch import term as tm, scalars as sc, smt, explore, stubs, poly
from symtorch.scalars import S
from symtorch.tensor import Sym, _obj, lift

from nflows.flows import base as FB
from nflows.distributions import normal as DN
from nflows.transforms import base as TB
from nflows.utils import torchutils

PROP = "C04"


class UFTransform(TB.Transform):
    """uninterpreted row-wise bijection with the two inverse axioms as rewrites."""

    def __init__(self, D):
        super().__init__()
        self.D = D
        for n in ["Tf_%d" % d for d in range(D)] + ["Ti_%d" % d for d in range(D)] + ["Lf", "Li"]:
            sc.reg().declare_uf(n)

    def _apply(self, inputs, context, fwd):
        x = lift(inputs)
        n = x.a.shape[0]
        ctx = None if context is None else lift(context)
        out = np.empty((n, self.D), dtype=object)
        lad = np.empty((n,), dtype=object)
        me, other = ("Tf", "Ti") if fwd else ("Ti", "Tf")
        lme, lother = ("Lf", "Li") if fwd else ("Li", "Lf")
        for r in range(n):
            row = [s.real().t for s in x.a[r].reshape(-1)]
            cargs = [s.real().t for s in ctx.a[r].reshape(-1)] if ctx is not None else []
            # rewrite T(T^-1(z, c), c) -> z
            inner = None
            if all(t.op == "app" and t.args[0] == "%s_%d" % (other, d) for d, t in enumerate(row)):
                a0 = row[0].args[1:]
                if all(t.args[1:] == a0 for t in row) and list(a0[self.D:]) == cargs:
                    inner = list(a0[: self.D])
            if inner is not None:
                for d in range(self.D):
                    out[r, d] = S(inner[d])
                lad[r] = S(tm.neg(tm.app(lother, inner + cargs)))
            else:
                for d in range(self.D):
                    out[r, d] = S(tm.app("%s_%d" % (me, d), row + cargs))
                lad[r] = S(tm.app(lme, row + cargs))
        return Sym(out), Sym(lad)

    def forward(self, inputs, context=None):
        return self._apply(inputs, context, True)

    def inverse(self, inputs, context=None):
        return self._apply(inputs, context, False)


def std_normal_lp(zrow, log_z):
    return tm.sub(tm.scale(tm.read_float(-0.5), tm.add(*[tm.mul(z, z) for z in zrow])), log_z)


def job(cfg):
    base_kind, emb, k, n, D = cfg["base"], cfg["emb"], cfg["k"], cfg["n"], cfg["D"]
    timeout = cfg["timeout"]
    R = sc.new_registry()
    solver = smt.Z3Proc()
    name = "Flow[%s%s]/rows=%s/n=%d/D=%d" % (base_kind, ",embedding" if emb else "", k, n, D)
    jr = C01.new_jr("Flow.sample_and_log_prob")
    checks = 0

    def note(what, err):
        nonlocal checks
        checks += 1
        jr["outcomes"].append({"name": name + "/" + what, "kind": "goal", "status": "unsat" if err is None else "sat", "s": 0.0, "expect": "unsat", "detail": err or ""})
        if err is not None:
            rep = replay(base_kind, emb, k, n, D)
            sig = {"base": base_kind, "embedding": emb, "context": k is not None, "what": what}
            payload = {"property": PROP, "kernel": jr["kernel"], "relation": what, "signature": sig, "error": err, "replay_result": rep, "replay_call": {"fn": "harness.C04:replay", "args": {"base_kind": base_kind, "emb": emb, "k": k, "n": n, "D": D}}}
            if rep.get("reproduced"):
                fn = "".join(ch if ch.isalnum() else "_" for ch in "%s_%s" % (name, what))[:110]
                jr["violations"].append({"kernel": jr["kernel"], "relation": what, "signature": sig, "replay": C.write_replay(PROP, fn, payload), "detail": rep})
            else:
                jr["inconclusive"].append({"query": name + "/" + what, "why": "term-level mismatch not reproduced numerically", "error": err, "replay": rep})

    def same(a, b, asm=()):
        if a is b:
            return True
        g, _ = poly.eq_goal(a, b)
        if g is tm.TRUE:
            return True
        o = C.prove(R, solver, "eq", g, [list(asm)], min(timeout, 20))
        return o.status == "unsat"

    with stubs.torch_patches():
        R.begin_run()
        cw = 2 * D if base_kind == "ConditionalDiagonalNormal" and not emb else 3
        ew = 2 * D if base_kind == "ConditionalDiagonalNormal" else 3
        base = DN.StandardNormal([D]) if base_kind == "StandardNormal" else DN.ConditionalDiagonalNormal([D])
        embed = stubs.UFNet("emb", lambda in_shape: (ew,)) if emb else None
        flow = FB.Flow(UFTransform(D), base, embedding_net=embed)
        flow.eval()
        ctx = stubs.named_tensor("ctx", (k, cw)) if k is not None else None
        log_z = lift(base._log_z).a[()].t
        try:
            samples, lp = flow.sample_and_log_prob(n, context=ctx)
        except Exception as e:  # noqa  (a well-formed call must not raise; the replay repeats it on real tensors)
            note("sample_and_log_prob-raises", "%s: %s" % (type(e).__name__, e))
            jr["paths"] = checks
            solver.close()
            return jr
        rows = k if k is not None else 1
        want = ((k, n, D) if k is not None else (n, D))
        note("shapes", None if (tuple(samples.shape) == want and tuple(lp.shape) == want[:-1]) else "shapes %s / %s" % (tuple(samples.shape), tuple(lp.shape)))
        sa = samples.a.reshape(rows, n, D)
        la = lp.a.reshape(rows, n)
        E = (lambda c: embed(c)) if emb else (lambda c: c)
        ectx = E(ctx) if ctx is not None else None
        used = set()
        structure = {}
        for i in range(rows):
            for j in range(n):
                ts = [s.t for s in sa[i, j]]
                if not all(t.op == "app" and t.args[0] == "Ti_%d" % d for d, t in enumerate(ts)):
                    note("pairing[%d,%d]" % (i, j), "sample is not T^-1 of a single argument list: %s" % tm.pretty(ts[0])[:120])
                    continue
                args = ts[0].args[1:]
                if any(t.args[1:] != args for t in ts):
                    note("pairing[%d,%d]" % (i, j), "features of one sample come from different arguments")
                    continue
                z, cpart = list(args[:D]), list(args[D:])
                want_c = [s.real().t for s in ectx.a[i].reshape(-1)] if ectx is not None else []
                err = None
                if cpart != want_c:
                    rows_used = sorted({v.args[0] for t in cpart for v in tm.free_vars(t)})
                    err = "context paired wrongly: sample[%d,%d] is conditioned on %s" % (i, j, rows_used[:4])
                key = tuple(z)
                if key in used:
                    err = err or "noise draw reused"
                used.add(key)
                note("pairing[%d,%d]" % (i, j), err)
                # density
                if base_kind == "StandardNormal":
                    noise_vars = {v.args[0] for t in z for v in tm.free_vars(t)}
                    if not all(t.op == "var" and t.args[0].startswith("randn") for t in z):
                        note("noise[%d,%d]" % (i, j), "noise is not a plain standard-normal draw: %s" % tm.pretty(z[0])[:80])
                    base_lp = std_normal_lp(z, log_z)
                else:
                    mean = [s.real().t for s in ectx.a[i].reshape(-1)[:D]]
                    logstd = [s.real().t for s in ectx.a[i].reshape(-1)[D:]]
                    eps = [tm.mul(tm.sub(zz, m), sc.t_exp(tm.neg(ls))) for zz, m, ls in zip(z, mean, logstd)]
                    if not all(any(v.args[0].startswith("randn") for v in tm.free_vars(zz)) for zz in z):
                        note("noise[%d,%d]" % (i, j), "conditional noise does not contain a standard-normal draw")
                    else:
                        # the base draw of block i is  mean_i + exp(log_std_i) * (one standard-normal draw), with row i's parameters
                        bad_z = None
                        for zz, m_, ls in zip(z, mean, logstd):
                            rv = [v for v in tm.free_vars(zz) if v.args[0].startswith("randn")]
                            if len(rv) != 1 or not same(zz, tm.add(m_, tm.mul(sc.t_exp(ls), rv[0]))):
                                bad_z = "base noise of sample[%d,%d] is not mean_%d + std_%d * randn: %s" % (i, j, i, i, tm.pretty(zz)[:120])
                        note("conditional-noise[%d,%d]" % (i, j), bad_z)
                    base_lp = tm.sub(tm.sub(tm.scale(tm.read_float(-0.5), tm.add(*[tm.mul(e, e) for e in eps])), tm.add(*logstd)), log_z)
                expect = tm.sub(base_lp, tm.app("Li", z + want_c))
                note("density[%d,%d]" % (i, j), None if same(la[i, j].t, expect) else "logp != base_log_prob(noise) - lad_inv(noise): %s" % tm.pretty(la[i, j].t)[:160])
                structure[(i, j)] = (z, want_c)
        # agreement with log_prob on the very same samples
        if k is not None:
            flat = Sym(sa.reshape(rows * n, D))
            rep_ctx = torchutils.repeat_rows(ctx, n)
            lp2 = flow.log_prob(flat, context=rep_ctx)
        else:
            lp2 = flow.log_prob(Sym(sa.reshape(n, D)))
        l2 = lp2.a.reshape(rows, n)
        bad = [(i, j) for i in range(rows) for j in range(n) if not same(l2[i, j].t, la[i, j].t)]
        note("log_prob(sample)==returned-logp", None if not bad else "differs at %s" % bad[:3])
        # sample() alone has the same structure
        s2 = flow.sample(n, context=ctx)
        s2a = s2.a.reshape(rows, n, D) if tuple(s2.shape) == want else None
        err = None
        if s2a is None:
            err = "sample shape %s" % (tuple(s2.shape),)
        else:
            seen = set()
            for i in range(rows):
                for j in range(n):
                    ts = [s.t for s in s2a[i, j]]
                    if not all(t.op == "app" and t.args[0] == "Ti_%d" % d for d, t in enumerate(ts)):
                        err = "sample()[%d,%d] is not T^-1(...)" % (i, j)
                        break
                    args = ts[0].args[1:]
                    want_c = [s.real().t for s in ectx.a[i].reshape(-1)] if ectx is not None else []
                    if list(args[D:]) != want_c:
                        err = "sample()[%d,%d] conditioned on the wrong context row" % (i, j)
                    if tuple(args[:D]) in seen:
                        err = "sample() reuses a noise draw"
                    seen.add(tuple(args[:D]))
        note("sample()-structure", err)
        # transform_to_noise
        N = rows
        x = stubs.named_tensor("inp", (N, D))
        tn = flow.transform_to_noise(x, context=ctx)
        ok = True
        for i in range(N):
            want_c = [s.real().t for s in ectx.a[i].reshape(-1)] if ectx is not None else []
            for d in range(D):
                exp = tm.app("Tf_%d" % d, [s.t for s in x.a[i]] + want_c)
                ok = ok and tn.a[i, d].t is exp
        note("transform_to_noise==T(x,E(c))", None if ok else "noise terms differ")
        # log_prob decomposition (also C03's first item)
        lpx = flow.log_prob(x, context=ctx)
        ok = True
        for i in range(N):
            want_c = [s.real().t for s in ectx.a[i].reshape(-1)] if ectx is not None else []
            xs = [s.t for s in x.a[i]]
            z = [tm.app("Tf_%d" % d, xs + want_c) for d in range(D)]
            if base_kind == "StandardNormal":
                b = std_normal_lp(z, log_z)
            else:
                mean, logstd = want_c[:D], want_c[D:]
                eps = [tm.mul(tm.sub(zz, m), sc.t_exp(tm.neg(ls))) for zz, m, ls in zip(z, mean, logstd)]
                b = tm.sub(tm.sub(tm.scale(tm.read_float(-0.5), tm.add(*[tm.mul(e, e) for e in eps])), tm.add(*logstd)), log_z)
            ok = ok and same(lpx.a[i].t, tm.add(b, tm.app("Lf", xs + want_c)))
        note("log_prob==base_log_prob(T(x))+lad", None if ok else "log_prob is not base + logabsdet")
    jr["paths"] = checks
    jr["samples"].append({"case": name, "sample[0,0]": tm.pretty(sa[0, 0][0].t)[:200], "logp[0,0]": tm.pretty(la[0, 0].t)[:240]})
    solver.close()
    return jr


def replay(base_kind, emb, k, n, D):
    """numeric replay with a real affine transform: log_prob of the returned samples vs the returned logp."""
    res = {"reproduced": False}
    try:
        from nflows.transforms import standard as ST

        torch.manual_seed(0)

        class CtxAffine(TB.Transform):
            def forward(self, x, context=None):
                s = 1.5 + (0 if context is None else torch.tanh(context.sum(1, keepdim=True)))
                return x * s + 0.3, torch.log(s.abs()).reshape(-1) * x.shape[1] if context is not None else torch.full((x.shape[0],), float(np.log(1.5) * x.shape[1]))

            def inverse(self, y, context=None):
                s = 1.5 + (0 if context is None else torch.tanh(context.sum(1, keepdim=True)))
                return (y - 0.3) / s, -torch.log(s.abs()).reshape(-1) * y.shape[1] if context is not None else torch.full((y.shape[0],), float(-np.log(1.5) * y.shape[1]))

        cw = 2 * D if base_kind == "ConditionalDiagonalNormal" and not emb else 3
        ew = 2 * D if base_kind == "ConditionalDiagonalNormal" else 3
        base = DN.StandardNormal([D]) if base_kind == "StandardNormal" else DN.ConditionalDiagonalNormal([D])
        flow = FB.Flow(CtxAffine(), base, embedding_net=nn.Linear(cw, ew) if emb else None)
        ctx = torch.randn(k, cw) if k is not None else None
        s, lp = flow.sample_and_log_prob(n, context=ctx)
        if k is not None:
            lp2 = flow.log_prob(s.reshape(k * n, D), context=torchutils.repeat_rows(ctx, n)).reshape(k, n)
        else:
            lp2 = flow.log_prob(s)
        res["max_diff"] = float((lp - lp2).abs().max())
        res["reproduced"] = res["max_diff"] > 1e-4
        if base_kind == "ConditionalDiagonalNormal" and k is not None:
            # row conditioning: with tiny standard deviations every draw of block i must sit on the mean of row i
            with torch.no_grad():
                lin = nn.Linear(cw, ew) if emb else None
                c2 = torch.randn(k, cw)
                if emb:
                    lin.weight[D:] = 0.0
                    lin.bias[D:] = -12.0
                    lin.weight[:D] *= 50.0
                    e = lin(c2)
                else:
                    c2[:, :D] *= 50.0
                    c2[:, D:] = -12.0
                    e = c2
                f2 = FB.Flow(ST.IdentityTransform(), DN.ConditionalDiagonalNormal([D]), embedding_net=lin)
                devs = []
                for smp in (f2.sample(n, context=c2), f2.sample_and_log_prob(n, context=c2)[0]):
                    devs.append(float((smp.reshape(k, n, D) - e[:, None, :D]).abs().max()))
            res["row_mean_deviation"] = max(devs)
            res["reproduced"] = res["reproduced"] or max(devs) > 1e-2
    except Exception as e:  # noqa
        res["exception"] = "%s: %s" % (type(e).__name__, e)
        res["reproduced"] = True
    return res


def configs(tier):
    q = tier == "quick"
    cfgs = []
    for base in ("StandardNormal", "ConditionalDiagonalNormal"):
        for emb in (False, True):
            for k in ([None] if base == "StandardNormal" and not emb else []) + ([1, 2] if q else [1, 2, 3, 4]):
                for n in ((1, 2) if q else (1, 2, 3, 4)):
                    for D in ((1, 2) if q else (1, 2, 3)):
                        cfgs.append({"base": base, "emb": emb, "k": k, "n": n, "D": D, "timeout": 60})
    return cfgs


def main():
    rep = C.Report(PROP)
    cfgs = configs(C.TIER)
    rep.functions = C.source_hash([FB.Flow._sample, FB.Flow.sample_and_log_prob, FB.Flow._log_prob, FB.Flow.transform_to_noise, DN.StandardNormal._sample, DN.StandardNormal._log_prob, DN.ConditionalDiagonalNormal._sample, DN.ConditionalDiagonalNormal._log_prob, torchutils.repeat_rows, torchutils.merge_leading_dims, torchutils.split_leading_dim])
    rep.bounds = {"context_rows": sorted({str(c["k"]) for c in cfgs}), "num_samples": sorted({c["n"] for c in cfgs}), "features": sorted({c["D"] for c in cfgs}), "bases": ["StandardNormal", "ConditionalDiagonalNormal"], "embedding_net": ["none", "uninterpreted function"]}
    rep.assumptions = ["the transform is an arbitrary row-wise bijection (uninterpreted) with its two inverse axioms", "torch.randn draws are independent standard normals (stubbed as distinct fresh symbols)", "the statistical convergence of the empirical distribution follows from the structural result by the change-of-variables theorem; it is not queried", "MADE-MoG ancestral sampling (torch.distributions.Categorical) is outside this check"]
    rep.stubs = ["torch.randn -> fresh symbols", "transform -> uninterpreted bijection with rewrite axioms", "embedding net -> uninterpreted function"]
    for jr in C.run_jobs(job, cfgs):
        rep.add_job(jr)
    rep.extra["exhaustive"] = True
    sys.exit(rep.finish("the real Flow sampling / density code on symbolic noise, context and an uninterpreted bijection; pairing, density and agreement decided as term identities (z3 for the polynomial ones)"))


if __name__ == "__main__":
    main()
