"""./check --replay <file>: re-runs a recorded counterexample on the real code (real torch, no solver).

Exit 1 and a VIOLATION line if the violation reproduces, 0 otherwise."""
import importlib
import json
import sys


def main():
    path = sys.argv[1]
    with open(path) as f:
        payload = json.load(f)
    call = payload.get("replay_call")
    if not call:
        print("replay file has no replay_call")
        sys.exit(2)
    modname, fn = call["fn"].split(":")
    res = getattr(importlib.import_module(modname), fn)(**call["args"])
    print(json.dumps(res, indent=1, default=str))
    if res.get("reproduced"):
        print("VIOLATION property=%s replay=%s" % (payload.get("property"), path))
        sys.exit(1)
    print("not reproduced")
    sys.exit(0)


if __name__ == "__main__":
    main()
