"""Catalogue of transform configurations shared by C01 / C02 / C12 / C13 / C16.

Each case builds the *real* module with its real constructor; `symbolic()` then swaps parameters for symbols
and returns the pieces a harness needs; `real(leaves)` builds the concrete twin for replays.
"""
import numpy as np
import torch

from symtorch import term as tm
from symtorch import scalars as sc
from symtorch import stubs
from symtorch.tensor import Sym

from harness import transformkit as TK

from nflows import transforms as T
from nflows.transforms import nonlinearities as NL
from nflows.transforms import standard as ST
from nflows.transforms import normalization as NM
from nflows.transforms import permutations as PM
from nflows.transforms import reshape as RS
from nflows.transforms import coupling as CP
from nflows.transforms import autoregressive as AR
from nflows.transforms import linear as LN
from nflows.transforms import lu as LU
from nflows.transforms import qr as QR
from nflows.transforms import svd as SV
from nflows.transforms import orthogonal as OR
from nflows.transforms import conv as CV


class Case:
    """name, factory() -> real module, input shape (without batch), optional context shape, symbolic buffers,
    assumptions(sym_params dict, x Sym) -> [Bool terms]"""

    def __init__(self, name, factory, in_shape, ctx_shape=None, buffers=(), positive_buffers=(), assume=None, post=None, eval_mode=True, tier="quick", note="", domain=None, classes=(), rt_box=None, rt_assume=None, prelude=None, real_dtype=None):
        self.real_dtype = real_dtype  # dtype of the real replay / validation module (default float64)
        # prelude(m, x, ctx): calls made on the freshly built module before the call under test (a history: e.g. an
        # inverse pass that fills the weight cache first); run on the symbolic and on the real module alike
        self.prelude = prelude
        # rt_assume: {(order, "start"): fn(x Sym) -> [Bool terms]} extra assumptions on the round-trip start value
        self.rt_assume = rt_assume or {}
        # rt_box: {(order, stage): (lo, hi)} closed box assumed for the round-trip start / middle values
        self.rt_box = rt_box or {}
        self.name, self.factory, self.in_shape, self.ctx_shape = name, factory, tuple(in_shape), ctx_shape
        self.buffers, self.positive_buffers, self.assume, self.post = buffers, positive_buffers, assume, post
        self.eval_mode, self.tier, self.note, self.domain, self.classes = eval_mode, tier, note, domain, classes

    def build_symbolic(self, n=1, seed=True, xname="x"):
        torch.manual_seed(0)
        m = self.factory()
        if self.eval_mode:
            m.eval()
        if self.post:
            self.post(m)
        params = TK.symbolize(m, buffers=self.buffers, positive_buffers=self.positive_buffers)
        x = stubs.named_tensor(xname, (n,) + self.in_shape, seed_base=0 if seed else None)
        ctx = None
        if self.ctx_shape is not None:
            ctx = stubs.named_tensor("ctx", (n,) + tuple(self.ctx_shape))
        asm = list(self.assume(params, x)) if self.assume else []
        if self.domain:
            asm += list(self.domain(x))
        if self.prelude:
            from symtorch import explore as _ex

            for a in asm:
                _ex.assume(a)
            with stubs.torch_patches():
                self.prelude(m, x, ctx)
        return m, params, x, ctx, asm

    def build_real(self, leaves, n=1, dtype=torch.float64, xname="x"):
        torch.manual_seed(0)
        dtype = self.real_dtype or dtype

        def fac():
            m = self.factory()
            if self.eval_mode:
                m.eval()
            if self.post:
                self.post(m)
            return m

        m = TK.real_values(fac, leaves, buffers=self.buffers, dtype=dtype)
        x = torch.zeros((n,) + self.in_shape, dtype=dtype)
        TK._fill(x, xname, leaves)
        ctx = None
        if self.ctx_shape is not None:
            ctx = torch.zeros((n,) + tuple(self.ctx_shape), dtype=dtype)
            TK._fill(ctx, "ctx", leaves)
        if self.prelude:
            with torch.no_grad():
                self.prelude(m, x, ctx)
        return m, x, ctx


def _elem_terms(sym):
    return [s.t for s in sym.a.reshape(-1)]


def _pos(names):
    def f(params, x):
        out = []
        for nm in names:
            for t in _elem_terms(params[nm]):
                out.append(tm.gt(t, tm.ZERO))
        return out

    return f


def _nonzero(names):
    def f(params, x):
        out = []
        for nm in names:
            for t in _elem_terms(params[nm]):
                out.append(tm.not_(tm.eq0(t)))
        return out

    return f


def _householder_nonzero(params, x):
    """every Householder vector is non-zero (a zero vector is not a reflection: division by |q|^2)."""
    out = []
    for nm, p in params.items():
        if nm.endswith("q_vectors"):
            for row in p.a:
                out.append(tm.gt(tm.add(*[tm.mul(s.t, s.t) for s in row]), tm.ZERO))
    return out


def _naive_nonsingular(params, x):
    from harness import transformkit as TK2

    w = params["_weight"]
    n = w.a.shape[0]
    return [tm.not_(tm.eq0(TK2.det_terms([[w.a[i, j].t for j in range(n)] for i in range(n)])))]


def _init_actnorm(m):
    m.initialized.data = torch.tensor(True)


def _ufnet(name, hidden=None):
    return TK.ufnet_factory(name, hidden_features=hidden)


def _ar_post(mult_fn, name="ar", hidden=None):
    def post(m):
        feats = m.features if hasattr(m, "features") else m.autoregressive_net.final_layer.out_features // mult_fn(m)
        m.autoregressive_net = TK.ARStub(feats, mult_fn(m), name=name, hidden_features=hidden)

    return post


def _in_box(lo, hi, strict=False):
    def f(x):
        out = []
        for t in _elem_terms(x):
            out.append((tm.gt if strict else tm.ge)(t, tm.const(lo)))
            out.append((tm.lt if strict else tm.le)(t, tm.const(hi)))
        return out

    return f


def _off_seam(c, margin=1e-9):
    def f(x):
        out = []
        for s_ in x.a.reshape(-1):
            t = s_.real().t
            for cc in (c, -c):
                out.append(tm.or_(tm.lt(t, tm.const(cc - margin)), tm.gt(t, tm.const(cc + margin))))
        return out

    return f


def all_cases():
    cs = []
    A = cs.append
    # ---- element-wise non-linearities ----
    A(Case("Exp/2d", lambda: NL.Exp(), (2,)))
    A(Case("Tanh/2d", lambda: NL.Tanh(), (2,)))
    A(Case("LogTanh/2d", lambda: NL.LogTanh(cut_point=1), (1,), rt_assume={("fi", "start"): _off_seam(float(np.tanh(1.0))), ("if", "start"): _off_seam(1.0)},
           note="round trips: start values within 1e-9 of the seam (+-cut_point resp. +-tanh(cut_point)) excluded - there the two branches agree only up to the float rounding of the precomputed alpha/beta constants"))
    A(Case("LeakyReLU/2d", lambda: NL.LeakyReLU(negative_slope=0.25), (2,)))
    SIG_BOX = {("if", "mid"): (1e-6, 1 - 1e-6), ("fi", "start"): (1e-6, 1 - 1e-6)}
    LOGIT_BOX = {("fi", "mid"): (1e-6, 1 - 1e-6), ("if", "start"): (1e-6, 1 - 1e-6)}
    A(Case("Sigmoid/2d", lambda: NL.Sigmoid(temperature=1.5), (2,), buffers=("temperature",), positive_buffers=("temperature",), note="temperature > 0 assumed; round trips inside the declared eps clamp", rt_box=SIG_BOX))
    A(Case("Sigmoid/learned-T", lambda: NL.Sigmoid(temperature=1.5, learn_temperature=True), (1,), assume=_pos(["temperature"]), tier="thorough", rt_box=SIG_BOX))
    A(Case("Logit/2d", lambda: NL.Logit(temperature=1.5), (1,), buffers=("temperature",), positive_buffers=("temperature",), domain=_in_box(1e-6, 1 - 1e-6, strict=True), note="inside the declared eps clamp", rt_box=LOGIT_BOX))
    A(Case("GatedLinearUnit/D=1", lambda: NL.GatedLinearUnit(), (1,), ctx_shape=(1,)))
    A(Case("GatedLinearUnit/D=2,ctx=2", lambda: NL.GatedLinearUnit(), (2,), ctx_shape=(2,)))
    A(Case("GatedLinearUnit/D=2,ctx=1", lambda: NL.GatedLinearUnit(), (2,), ctx_shape=(1,)))
    A(Case("CauchyCDF/2d", lambda: NL.CauchyCDF(), (2,), rt_box={("fi", "start"): (0, 1, True)}, note="round trips on the open interval (tan is unbounded at the end-points)"))
    A(Case("CauchyCDFInverse/2d", lambda: NL.CauchyCDFInverse(), (1,), domain=_in_box(0, 1, strict=True), rt_box={("if", "start"): (0, 1, True)}))
    # ---- element-wise CDF transforms (shared parameters) ----
    for K in (1, 2):
        for tails in (None, "linear"):
            tg = "K=%d,tails=%s" % (K, tails)
            dom = None if tails else _in_box(0, 1)
            A(Case("PiecewiseRationalQuadraticCDF/" + tg, (lambda K=K, tails=tails: NL.PiecewiseRationalQuadraticCDF(shape=[2], num_bins=K, tails=tails, tail_bound=2.0)), (2,), domain=dom))
            A(Case("PiecewiseLinearCDF/" + tg, (lambda K=K, tails=tails: NL.PiecewiseLinearCDF(shape=[2], num_bins=K, tails=tails, tail_bound=2.0)), (2,), domain=dom))
            if not (tails and K == 1):
                A(Case("PiecewiseQuadraticCDF/" + tg, (lambda K=K, tails=tails: NL.PiecewiseQuadraticCDF(shape=[2], num_bins=K, tails=tails, tail_bound=2.0)), (2,), domain=dom))
            A(Case("PiecewiseCubicCDF/" + tg, (lambda K=K, tails=tails: NL.PiecewiseCubicCDF(shape=[1], num_bins=K, tails=tails, tail_bound=2.0)), (1,), domain=dom))
    A(Case("PiecewiseRationalQuadraticCDF/image", lambda: NL.PiecewiseRationalQuadraticCDF(shape=[1, 1, 2], num_bins=2), (1, 1, 2), domain=_in_box(0, 1)))
    A(Case("CompositeCDFTransform/Sigmoid+RQ", lambda: NL.CompositeCDFTransform(NL.Sigmoid(), NL.PiecewiseRationalQuadraticCDF(shape=[1], num_bins=2)), (1,), tier="thorough"))
    # ---- standard ----
    A(Case("IdentityTransform", lambda: ST.IdentityTransform(), (2,)))
    A(Case("PointwiseAffine/scalar", lambda: ST.PointwiseAffineTransform(shift=0.5, scale=2.0), (2,), buffers=("_shift", "_scale"), assume=_nonzero(["_scale"])))
    A(Case("PointwiseAffine/vector", lambda: ST.PointwiseAffineTransform(shift=torch.tensor([0.5, 1.0]), scale=torch.tensor([2.0, -3.0])), (2,), buffers=("_shift", "_scale"), assume=_nonzero(["_scale"])))
    A(Case("PointwiseAffine/scalar,image", lambda: ST.PointwiseAffineTransform(shift=0.5, scale=2.0), (2, 1, 2), buffers=("_shift", "_scale"), assume=_nonzero(["_scale"])))
    A(Case("PointwiseAffine/vector,image", lambda: ST.PointwiseAffineTransform(shift=torch.tensor([0.5, 1.0]), scale=torch.tensor([2.0, -3.0])), (2, 1, 2), buffers=("_shift", "_scale"), assume=_nonzero(["_scale"])))
    A(Case("PointwiseAffine/per-channel,image", lambda: ST.PointwiseAffineTransform(shift=torch.zeros(2, 1, 1), scale=torch.tensor([2.0, -3.0]).reshape(2, 1, 1)), (2, 1, 2), buffers=("_shift", "_scale"), assume=_nonzero(["_scale"])))
    # ---- normalisation ----
    A(Case("BatchNorm/eval", lambda: NM.BatchNorm(2), (2,), buffers=("running_mean", "running_var"), positive_buffers=("running_var",)))
    A(Case("ActNorm/2d", lambda: NM.ActNorm(2), (2,), post=_init_actnorm))
    A(Case("ActNorm/image", lambda: NM.ActNorm(2), (2, 1, 2), post=_init_actnorm))
    # never initialised, in evaluation mode: must behave as the plain affine map of its current parameters (the
    # data-dependent initialisation belongs to training mode only)
    A(Case("ActNorm/uninitialised,eval", lambda: NM.ActNorm(2), (2,)))
    # ---- permutations / reshape ----
    A(Case("Permutation/[1,0]", lambda: PM.Permutation(torch.tensor([1, 0])), (2,)))
    A(Case("Permutation/[2,0,1]", lambda: PM.Permutation(torch.tensor([2, 0, 1])), (3,)))
    A(Case("ReversePermutation/3", lambda: PM.ReversePermutation(3), (3,)))
    A(Case("RandomPermutation/3", lambda: PM.RandomPermutation(3), (3,)))
    A(Case("Permutation/image,dim=2", lambda: PM.Permutation(torch.tensor([1, 0]), dim=2), (1, 2, 1)))
    A(Case("SqueezeTransform/2", lambda: RS.SqueezeTransform(2), (1, 2, 2)))
    A(Case("SqueezeTransform/2/non-square-2x4", lambda: RS.SqueezeTransform(2), (1, 2, 4)))
    A(Case("SqueezeTransform/2/non-square-4x2", lambda: RS.SqueezeTransform(2), (1, 4, 2), tier="thorough"))
    A(Case("SqueezeTransform/3", lambda: RS.SqueezeTransform(3), (1, 3, 3), tier="thorough"))
    # ---- linear family ----
    for D in (1, 2, 3):
        t = "quick" if D < 3 else "thorough"
        A(Case("LULinear/D=%d" % D, (lambda D=D: LU.LULinear(D)), (D,), tier=t))
        A(Case("NaiveLinear/D=%d" % D, (lambda D=D: LN.NaiveLinear(D, orthogonal_initialization=False)), (D,), tier=t, assume=_naive_nonsingular))
    A(Case("LULinear/D=2,cache", lambda: LU.LULinear(2, using_cache=True), (2,)))
    # evaluation mode with the weight cache on, after an inverse pass has filled the cache (the combined accessors
    # weight_inverse_and_logabsdet / weight_and_logabsdet and the shared cache slots are on the path)
    A(Case("NaiveLinear/D=2,cached,inverse-first", lambda: LN.NaiveLinear(2, orthogonal_initialization=False, using_cache=True), (2,), assume=_naive_nonsingular, prelude=lambda m, x, ctx: m.inverse(x), real_dtype=torch.float32,
           note="real replay in float32: NaiveLinear's combined accessor builds a float32 identity internally"))
    A(Case("LULinear/D=2,cached,inverse-first", lambda: LU.LULinear(2, using_cache=True), (2,), prelude=lambda m, x, ctx: m.inverse(x)))
    A(Case("QRLinear/D=2,H=1", lambda: QR.QRLinear(2, num_householder=1), (2,), assume=_householder_nonzero))
    A(Case("QRLinear/D=2,H=2", lambda: QR.QRLinear(2, num_householder=2), (2,), assume=_householder_nonzero))
    A(Case("QRLinear/D=3,H=2", lambda: QR.QRLinear(3, num_householder=2), (3,), tier="thorough", assume=_householder_nonzero))
    A(Case("SVDLinear/D=2,H=2", lambda: SV.SVDLinear(2, num_householder=2), (2,), assume=_householder_nonzero))
    A(Case("HouseholderSequence/D=2,K=1", lambda: OR.HouseholderSequence(2, 1), (2,), assume=_householder_nonzero))
    A(Case("HouseholderSequence/D=2,K=2", lambda: OR.HouseholderSequence(2, 2), (2,), assume=_householder_nonzero))
    A(Case("HouseholderSequence/D=3,K=2", lambda: OR.HouseholderSequence(3, 2), (3,), tier="thorough", assume=_householder_nonzero))
    A(Case("OneByOneConvolution/C=2,1x2", lambda: CV.OneByOneConvolution(2), (2, 1, 2)))
    A(Case("OneByOneConvolution/C=2,cache", lambda: CV.OneByOneConvolution(2, using_cache=True), (2, 1, 2), tier="thorough"))
    # ---- coupling ----
    A(Case("AffineCoupling/D=2", lambda: CP.AffineCouplingTransform([1, -1], _ufnet("cond")), (2,)))
    A(Case("AffineCoupling/D=3,mask=[1,-1,1]", lambda: CP.AffineCouplingTransform([1, -1, 1], _ufnet("cond")), (3,)))
    A(Case("AffineCoupling/D=2,ctx", lambda: CP.AffineCouplingTransform([-1, 1], _ufnet("cond")), (2,), ctx_shape=(1,)))
    A(Case("AffineCoupling/general-scale", lambda: CP.AffineCouplingTransform([1, -1], _ufnet("cond"), scale_activation=CP.AffineCouplingTransform.GENERAL_SCALE_ACTIVATION), (2,)))
    A(Case("AffineCoupling/image", lambda: CP.AffineCouplingTransform([1, -1], _ufnet("cond")), (2, 1, 2)))
    A(Case("AffineCoupling/uncond-affine", lambda: CP.AffineCouplingTransform([1, -1], _ufnet("cond"), unconditional_transform=lambda features: NM.ActNorm(features)), (2,), post=lambda m: _init_actnorm(m.unconditional_transform)))
    A(Case("AdditiveCoupling/D=3", lambda: CP.AdditiveCouplingTransform([1, 1, -1], _ufnet("cond")), (3,)))
    for nm, cls in (("PiecewiseLinearCoupling", CP.PiecewiseLinearCouplingTransform), ("PiecewiseQuadraticCoupling", CP.PiecewiseQuadraticCouplingTransform), ("PiecewiseCubicCoupling", CP.PiecewiseCubicCouplingTransform), ("PiecewiseRationalQuadraticCoupling", CP.PiecewiseRationalQuadraticCouplingTransform)):
        A(Case(nm + "/K=2", (lambda cls=cls: cls([1, -1], _ufnet("cond", hidden=4), num_bins=2)), (2,), domain=_in_box(0, 1)))
        A(Case(nm + "/K=2,tails", (lambda cls=cls: cls([-1, 1], _ufnet("cond", hidden=4), num_bins=2, tails="linear", tail_bound=2.0)), (2,), tier="thorough" if nm != "PiecewiseRationalQuadraticCoupling" else "quick"))
    A(Case("PiecewiseRationalQuadraticCoupling/K=1,tails,floors", lambda: CP.PiecewiseRationalQuadraticCouplingTransform([-1, 1], _ufnet("cond", hidden=4), num_bins=1, tails="linear", tail_bound=2.0, min_bin_width=0.05, min_bin_height=0.1, min_derivative=0.2), (2,)))
    A(Case("PiecewiseRationalQuadraticCDF/K=2,floors", lambda: NL.PiecewiseRationalQuadraticCDF(shape=[1], num_bins=2, min_bin_width=0.05, min_bin_height=0.1, min_derivative=0.2), (1,), domain=_in_box(0, 1)))
    A(Case("PiecewiseRationalQuadraticCoupling/image", lambda: CP.PiecewiseRationalQuadraticCouplingTransform([1, -1], _ufnet("cond", hidden=4), num_bins=2), (2, 1, 2), domain=_in_box(0, 1)))
    A(Case("PiecewiseRationalQuadraticCoupling/uncond", lambda: CP.PiecewiseRationalQuadraticCouplingTransform([1, -1], _ufnet("cond", hidden=4), num_bins=2, apply_unconditional_transform=True), (2,), domain=_in_box(0, 1)))
    A(Case("PiecewiseLinearCoupling/image", lambda: CP.PiecewiseLinearCouplingTransform([1, -1], _ufnet("cond", hidden=4), num_bins=2), (2, 1, 2), domain=_in_box(0, 1), tier="thorough"))
    # ---- autoregressive (conditioner = stub with the triangular dependency C06 proves for MADE) ----
    A(Case("MaskedAffineAutoregressive/D=2", lambda: AR.MaskedAffineAutoregressiveTransform(2, 4), (2,), post=_ar_post(lambda m: 2)))
    A(Case("MaskedAffineAutoregressive/D=3", lambda: AR.MaskedAffineAutoregressiveTransform(3, 4), (3,), post=_ar_post(lambda m: 2), tier="thorough"))
    A(Case("MaskedPiecewiseLinearAutoregressive/D=2,K=2", lambda: AR.MaskedPiecewiseLinearAutoregressiveTransform(2, 2, 4), (2,), post=_ar_post(lambda m: m._output_dim_multiplier(), hidden=4), domain=_in_box(0, 1)))
    A(Case("MaskedPiecewiseQuadraticAutoregressive/D=2,K=2", lambda: AR.MaskedPiecewiseQuadraticAutoregressiveTransform(2, 4, num_bins=2), (2,), post=_ar_post(lambda m: m._output_dim_multiplier(), hidden=4), domain=_in_box(0, 1)))
    A(Case("MaskedPiecewiseCubicAutoregressive/D=2,K=2", lambda: AR.MaskedPiecewiseCubicAutoregressiveTransform(2, 2, 4), (2,), post=_ar_post(lambda m: m._output_dim_multiplier(), hidden=4), domain=_in_box(0, 1), tier="thorough"))
    A(Case("MaskedPiecewiseRationalQuadraticAutoregressive/D=2,K=2", lambda: AR.MaskedPiecewiseRationalQuadraticAutoregressiveTransform(2, 4, num_bins=2), (2,), post=_ar_post(lambda m: m._output_dim_multiplier(), hidden=4), domain=_in_box(0, 1)))
    A(Case("MaskedPiecewiseRationalQuadraticAutoregressive/D=2,K=2,tails", lambda: AR.MaskedPiecewiseRationalQuadraticAutoregressiveTransform(2, 4, num_bins=2, tails="linear", tail_bound=2.0), (2,), post=_ar_post(lambda m: m._output_dim_multiplier(), hidden=4), tier="thorough"))
    return cs


def cases_for(tier, with_history=False):
    """with_history: include the cases that run a prelude (a call history) on the module first - meaningful for the
    Jacobian / round-trip checks (C01, C02, C03) only."""
    cs = all_cases()
    if tier == "quick":
        cs = [c for c in cs if c.tier == "quick"]
    if not with_history:
        cs = [c for c in cs if not c.prelude]
    return cs


def by_name(name):
    for c in all_cases():
        if c.name == name:
            return c
    raise KeyError(name)
