"""C02 - inverse undoes forward in both orders and returns the negated log-abs-det; every number finite.

For every catalogued transform (harness/cases.py) and the four spline functions with a symbolic box, the real
code is explored as one composite run

    order "if":  y, lf = forward(x);  x2, li = inverse(y)      goals: x2 == x,  exp(lf)*exp(li) == 1
    order "fi":  x, li = inverse(y);  y2, lf = forward(x)      goals: y2 == y,  exp(li)*exp(lf) == 1

with x (resp. y) symbolic, so that every feasible pairing of forward and inverse paths (bins, tails, masks) is
a path of its own.  "Every returned number is finite" is the validity of all side obligations the engine
raised (divisors != 0, log arguments > 0, sqrt arguments >= 0) under the documented parameter ranges only.
Identity goals are normalised to polynomial form (sqrt atoms reduced with s^2 = arg) before z3 decides them.
"""
import math
import random
import sys

import torch

from harness import common as C
from harness import cases as CS
from harness import splinekit as SK
from harness import transformkit as TK
from harness import C01
from symtorch import term as tm, scalars as sc, smt, explore, stubs, poly
from symtorch.tensor import Sym

PROP = "C02"
OPAQUE = ("cos", "sin", "atan2", "erf")


def has_opaque(*terms):
    return any(a.args[0] in OPAQUE for a in tm.atoms(*terms))


def eq_goal(a, b):
    g, size = poly.eq_goal_reparam(sc.reg(), a, b)
    return g, size


def handle(jr, R, o, relation, path, replay_fn, sig):
    jr["outcomes"].append(o.as_dict())
    if o.status == o.expect:
        return
    if o.status == "sat" and o.expect == "unsat":
        leaves = C.leaf_values(R, o.model)
        rep = replay_fn(relation, leaves)
        if not rep.get("reproduced") and not relation.startswith("exception"):
            for cand in C.alternative_leaves(R, path, leaves):
                rep2 = replay_fn(relation, cand)
                if rep2.get("reproduced"):
                    leaves, rep = cand, dict(rep2, leaves_from="perturbed solver model (same path)")
                    break
        if rep.get("reproduced"):
            payload = {"property": PROP, "kernel": jr["kernel"], "relation": relation, "signature": sig, "leaves": leaves, "path": path.describe() if path else None, "replay_result": rep,
                       "replay_call": {"fn": "harness.C02:replay_entry", "args": {"kernel": jr["kernel"], "signature": sig, "relation": relation, "leaves": leaves}}}
            fn = "".join(ch if ch.isalnum() else "_" for ch in "%s_%s_%s" % (jr["kernel"], sig.get("order", ""), relation))[:120]
            p = C.write_replay(PROP, fn, payload)
            jr["violations"].append({"kernel": jr["kernel"], "relation": relation, "signature": sig, "replay": p, "detail": rep})
        else:
            jr["inconclusive"].append({"query": o.name, "why": "solver model did not reproduce on the real code", "leaves": leaves, "replay": rep})
    elif o.status == "unsat" and o.expect == "sat":
        jr["inconclusive"].append({"query": o.name, "why": "vacuity twin is unsat"})
    else:
        jr["inconclusive"].append({"query": o.name, "status": o.status, "detail": o.detail})


def process(jr, R, solver, ex, results, name, sig, replay_fn, timeout, start_terms, cfg, obligations=True, goals=True, corollary=False):
    """shared post-processing; each result value = (back, l1, l2).  obligations=False: the side
    obligations of a composite run are instances of the obligations proven on the stand-alone runs of the
    two directions (same code, same decisions), so they are not re-proven on the composed terms.
    corollary=True: undecided goals are recorded but not counted (the claim follows from other lemmas)."""
    twin_done = False
    n_ret = 0
    for i, r in enumerate(results):
        p = r.path
        jr["syntactic"] += sum(1 for n in p.notes if n[0] == "syntactic")
        pname = "%s/path%d" % (name, i)
        if r.kind == "notmodelled":
            jr["inconclusive"].append({"path": p.describe()[:8], "notmodelled": str(r.exc), "tb": (r.tb or "")[-500:]})
            continue
        cond = p.condition()
        if r.kind == "raise":
            jr["exception_paths"] += 1
            en = type(r.exc).__name__
            if en == "InputOutsideDomain" and not getattr(r.exc, "_second_stage", False):
                continue  # the first stage rejected its input: outside the domain / range, nothing to invert
            # an exception in the middle of a round trip of an in-domain point must be infeasible
            st, model, secs, _ = C.check_sat(R, solver, cond, min(timeout, 30))
            jr["outcomes"].append({"name": pname + "/exception-infeasible:" + en, "kind": "goal", "status": "unsat" if st == "unsat" else st, "s": round(secs, 3), "expect": "unsat"})
            if st == "unsat":
                continue
            if st == "sat":
                leaves = C.leaf_values(R, model)
                rep = replay_fn("exception:" + en, leaves)
                if rep.get("reproduced"):
                    payload = {"property": PROP, "kernel": jr["kernel"], "relation": "exception:" + en, "signature": sig, "leaves": leaves, "path": p.describe(), "replay_result": rep,
                               "replay_call": {"fn": "harness.C02:replay_entry", "args": {"kernel": jr["kernel"], "signature": sig, "relation": "exception:" + en, "leaves": leaves}}}
                    fn = "".join(ch if ch.isalnum() else "_" for ch in "%s_%s_exc_%s" % (jr["kernel"], sig.get("order", ""), en))[:120]
                    jr["violations"].append({"kernel": jr["kernel"], "relation": "exception:" + en, "signature": sig, "replay": C.write_replay(PROP, fn, payload), "detail": rep})
                else:
                    jr["inconclusive"].append({"query": pname + "/exception:" + en, "why": "exception path feasible for the solver but not reproduced", "leaves": leaves, "replay": rep, "exc": str(r.exc)[:200]})
            else:
                jr["inconclusive"].append({"query": pname + "/exception:" + en, "status": st, "exc": str(r.exc)[:200]})
            continue
        n_ret += 1
        back, l1, l2 = r.value
        if goals and cfg.get("_start_shape") and tuple(back.a.shape) != tuple(cfg["_start_shape"]):
            # the round trip must give back the start tensor, not merely its elements in memory order
            so = C.Outcome(pname + "/roundtrip-shape", "goal", "sat", 0.0, rung="syntactic", detail="start %s, back %s" % (tuple(cfg["_start_shape"]), tuple(back.a.shape)))
            so.model = {}
            handle(jr, R, so, "roundtrip", p, replay_fn, sig)
            continue
        if obligations:
            cuts = C.Cuts(R, solver, cond)
            for ob in p.obligations:
                o = cuts.prove("%s/obl:%s" % (pname, ob.kind), ob.cond, p.condition(ob.n_dec, ob.n_asm), timeout, kind="obligation")
                handle(jr, R, o, "obligation:" + ob.kind, p, replay_fn, sig)
            for lo in cuts.log:
                jr["outcomes"].append(dict(lo.as_dict(), name=pname + "/" + lo.name, expect=lo.status))
        X = sc.expand_quotients
        cond = [X(c) for c in cond]
        back_t = [X(s.t) for s in back.a.reshape(-1)]
        l1 = Sym(l1.a.copy()) if False else l1
        extra = back_t + [X(s.t) for s in l1.a.reshape(-1)] + [X(s.t) for s in l2.a.reshape(-1)]
        w = C.witness(R, solver, pname + "/reach", cond, timeout, extra=extra)
        if w.status == "unsat" and p.uncertain:
            # a branch kept only because its feasibility was undecided at exploration time: now shown infeasible
            jr["outcomes"].append(dict(w.as_dict(), name=pname + "/infeasible-path-pruned-late", expect="unsat", kind="goal"))
            n_ret -= 1
            continue
        handle(jr, R, w, "reach", p, replay_fn, sig)
        if not goals:
            continue
        if has_opaque(*back_t):
            jr.setdefault("notes", []).append("%s: round-trip identity not decided (trigonometric root selection is opaque)" % pname)
            jr["outcomes"].append({"name": pname + "/roundtrip", "kind": "goal", "status": "skipped-opaque", "s": 0.0, "expect": "unsat"})
        else:
            goals = []
            for bt, st_ in zip(back_t, start_terms):
                g, size = eq_goal(bt, st_)
                goals.append(g)
            goal = tm.and_(*goals)
            o = C.prove(R, solver, pname + "/roundtrip", goal, [cond], timeout)
            if corollary and o.status not in ("unsat", "sat"):
                jr["outcomes"].append(dict(o.as_dict(), status="undecided-corollary"))
            else:
                handle(jr, R, o, "roundtrip", p, replay_fn, sig)
            if len(jr["samples"]) < 1:
                jr["samples"].append({"query": o.name, "path": p.describe()[:8], "status": o.status, "back": tm.pretty(back_t[0])[:300]})
            if not twin_done and w.status == "sat":
                # false claim: the round trip returns start + 1
                g2 = tm.and_(*[tm.eq(bt, tm.add(st_, tm.ONE)) for bt, st_ in zip(back_t, start_terms)])
                if C.refuted_by_model(w.model, g2):
                    twin_done = True
                    jr["outcomes"].append({"name": pname + "/twin:back==start+1", "kind": "twin", "status": "sat", "s": 0.0, "expect": "sat"})
                else:
                    o2 = C.prove(R, solver, pname + "/twin:back==start+1", g2, [cond], min(timeout, 20))
                    if o2.status == "sat":
                        twin_done = True
                        jr["outcomes"].append(dict(o2.as_dict(), expect="sat", kind="twin"))
        # log-abs-dets cancel
        la, lb = l1.a.reshape(-1), l2.a.reshape(-1)
        if la.shape[0] != lb.shape[0]:
            jr["inconclusive"].append({"query": pname + "/lad-shapes", "why": "forward and inverse log-abs-dets have different lengths %d / %d" % (la.shape[0], lb.shape[0])})
            continue
        if has_opaque(*[X(s.t) for s in la], *[X(s.t) for s in lb]):
            jr["outcomes"].append({"name": pname + "/lad-negation", "kind": "goal", "status": "skipped-opaque", "s": 0.0, "expect": "unsat"})
            continue
        gl = []
        for a, b in zip(la, lb):
            prod = sc.t_exp(tm.add(X(a.t), X(b.t)))
            g, size = eq_goal(prod, tm.ONE)
            if size != 0 and C01.has_enclosed_const(prod):
                d = tm.sub(prod, tm.ONE)
                g = tm.and_(tm.le(d, C01.REL_TOL), tm.le(tm.neg(d), C01.REL_TOL))
            gl.append(g)
        o = C.prove(R, solver, pname + "/lad-negation", tm.and_(*gl), [cond], timeout)
        if corollary and o.status not in ("unsat", "sat"):
            jr["outcomes"].append(dict(o.as_dict(), status="undecided-corollary"))
        else:
            handle(jr, R, o, "lad-negation", p, replay_fn, sig)
    if goals and n_ret and not twin_done and not jr["violations"] and not any(o.get("status") == "skipped-opaque" for o in jr["outcomes"]):
        jr["inconclusive"].append({"query": name + "/twin", "why": "false round-trip claim not refuted on any path"})


def _box_assume(box, t):
    if box is None:
        return
    lo, hi = tm.const(box[0]), tm.const(box[1])
    strict = len(box) > 2 and box[2]
    for s in t.a.reshape(-1):
        explore.assume((tm.gt if strict else tm.ge)(s.real().t, lo))
        explore.assume((tm.lt if strict else tm.le)(s.real().t, hi))


def job_module(cfg):
    case = CS.by_name(cfg["case"])
    order = cfg["order"]
    timeout = cfg["timeout"]
    R = sc.new_registry()
    solver = smt.Z3Proc()
    h = {}

    def fn():
        m, params, x, ctx, asm = case.build_symbolic(n=1, xname="x" if order in ("if", "f") else "y", seed=False)
        h.update(m=m, x=x, ctx=ctx, asm=asm)
        if order in ("if", "f"):
            for a in asm:
                explore.assume(a)
        else:
            # in the order inverse-then-forward the symbolic start is a point of the *range*; the domain
            # assumptions of the case (for x) do not apply
            for a in (list(case.assume(params, x)) if case.assume else []):
                explore.assume(a)
        from nflows.transforms import nonlinearities as _NL

        with stubs.torch_patches(), stubs.patched((_NL, "np", stubs.NpProxy())):
            fwd = (lambda z: m(z, ctx) if ctx is not None else m(z))
            inv = (lambda z: m.inverse(z, ctx) if ctx is not None else m.inverse(z))
            first, second = (fwd, inv) if order in ("if", "f") else (inv, fwd)
            _box_assume(case.rt_box.get(({"f": "if", "i": "fi"}.get(order, order), "start")), x)
            for a in case.rt_assume.get((order, "start"), lambda z: [])(x):
                explore.assume(a)
            mid, l1 = first(x)
            if order in ("f", "i"):
                return mid, l1, l1
            _box_assume(case.rt_box.get((order, "mid")), mid)
            try:
                back, l2 = second(mid)
            except Exception as e:  # noqa
                e._second_stage = True
                raise
        return back, l1, l2

    ex = explore.Explorer(R, solver, decide_timeout=10.0, max_paths=cfg.get("max_paths", 300))
    results = ex.explore(fn)
    jr = C01.new_jr(case.name)
    jr["paths"] = len(results)
    jr["prune_queries"] = ex.stats["prune_queries"]
    sig = {"case": case.name, "order": order}
    start_terms = [s.t for s in h["x"].a.reshape(-1)] if "x" in h else []
    if "x" in h:
        cfg = dict(cfg, _start_shape=tuple(h["x"].a.shape))

    def replay_fn(relation, leaves):
        return replay_module(case, order, relation, leaves)

    alone = order in ("f", "i")
    process(jr, R, solver, ex, results, "%s/%s" % (case.name, order), sig, replay_fn, timeout, start_terms, cfg, obligations=alone, goals=not alone)
    solver.close()
    return jr


def replay_module(case, order, relation, leaves):
    res = {"reproduced": False}
    try:
        m, x, ctx = case.build_real(leaves, xname="x" if order == "if" else "y")
        if any(isinstance(mod, (stubs.UFNet, TK.ARStub)) for mod in m.modules()):
            C01._concretise_stubs(m)
        fwd = (lambda z: m(z, ctx)) if ctx is not None else (lambda z: m(z))
        inv = (lambda z: m.inverse(z, ctx)) if ctx is not None else (lambda z: m.inverse(z))
        first, second = (fwd, inv) if order in ("if", "f") else (inv, fwd)
        if order in ("f", "i"):
            second = lambda z: (z, torch.zeros(z.shape[0], dtype=z.dtype))
        with torch.no_grad():
            try:
                mid, l1 = first(x)
            except Exception as e:  # noqa
                res["first_stage_exception"] = "%s: %s" % (type(e).__name__, e)
                return res
            back, l2 = second(mid)
        if tuple(back.shape) != tuple(x.shape):
            res.update({"start_shape": list(x.shape), "back_shape": list(back.shape)})
            res["reproduced"] = relation == "roundtrip"
            return res
        err = float((back - x).abs().max())
        lsum = float((l1 + l2).abs().max()) if l1.shape == l2.shape else float("nan")
        res.update({"start": x.reshape(-1).tolist(), "mid": mid.reshape(-1).tolist(), "back": back.reshape(-1).tolist(), "max_err": err, "lad_sum": lsum})
        finite = bool(torch.isfinite(back).all() and torch.isfinite(mid).all() and torch.isfinite(l1).all() and torch.isfinite(l2).all())
        scale = max(1.0, float(x.abs().max()))
        if relation.startswith("obligation"):
            res["reproduced"] = not finite
        elif relation == "roundtrip":
            res["reproduced"] = (not finite) or err > 1e-6 * scale
        elif relation == "lad-negation":
            res["reproduced"] = (not finite) or not (lsum <= 1e-6 * max(1.0, float(l1.abs().max())))
        elif relation.startswith("exception"):
            res["reproduced"] = False
    except Exception as e:  # noqa
        res["exception"] = "%s: %s" % (type(e).__name__, e)
        res["reproduced"] = relation.startswith("exception") or relation.startswith("obligation")
    return res


# ---------------------------------------------------------------------------------------------
def job_spline(cfg):
    SK.USE_FLOORS[0] = bool(cfg.get("floors"))
    kind, K, mode, box, order = cfg["kind"], cfg["K"], cfg["mode"], cfg["box"], cfg["order"]
    timeout = cfg["timeout"]
    R = sc.new_registry()
    solver = smt.Z3Proc()
    ex = explore.Explorer(R, solver, decide_timeout=cfg.get("decide_timeout", 15.0), max_paths=200)
    h = {}

    def fn():
        x, params, bx = SK.sym_setup(kind, K, mode, box=box, xname="x" if order in ("if", "f") else "y", seed=False)
        h["x"], h["bx"] = x, bx
        with stubs.torch_patches():
            mid, l1 = SK.call(kind, mode, x, params, bx, inverse=(order in ("fi", "i")))
            if order in ("f", "i"):
                return mid, l1, l1
            try:
                back, l2 = SK.call(kind, mode, mid, params, bx, inverse=(order == "if"))
            except Exception as e:  # noqa
                e._second_stage = True
                raise
        return back, l1, l2

    results = ex.explore(fn)
    kernel = "%s_spline/%s" % (kind, mode)
    jr = C01.new_jr(kernel)
    jr["paths"] = len(results)
    jr["prune_queries"] = ex.stats["prune_queries"]
    jr["uncertain_paths"] = sum(1 for r in results if r.path.uncertain)
    sig = {"K": K, "box": box, "order": order, "floors": bool(cfg.get("floors"))}
    start_terms = [h["x"].a[0].t]

    def replay_fn(relation, leaves):
        return replay_spline(kind, K, mode, order, relation, leaves)

    alone = order in ("f", "i")
    name = "%s/K=%d/box=%s/%s" % (kernel, K, box, order)
    process(jr, R, solver, ex, results, name, sig, replay_fn, timeout, start_terms, cfg, obligations=alone, goals=not alone, corollary=(order == "if"))
    if order == "i":
        # range lemma: the inverse lands inside [left, right] (needed for "inverse o forward" as a corollary)
        left, right, bottom, top = SK.box_terms(mode, h["bx"])
        for i, r in enumerate(results):
            if r.kind != "return":
                continue
            xraw = r.value[0].a[0].t
            xo = sc.expand_quotients(xraw)
            if xo is start_terms[0]:
                continue  # linear tail: the identity
            if has_opaque(xo):
                jr["outcomes"].append({"name": "%s/path%d/inverse-range" % (name, i), "kind": "goal", "status": "skipped-opaque", "s": 0.0, "expect": "unsat"})
                continue
            sc.DEFINE_SQRT_QUOTIENTS[0] = True
            cuts = C.Cuts(R, solver, r.path.condition())
            o = cuts.prove("%s/path%d/inverse-range" % (name, i), tm.and_(tm.ge(xraw, left), tm.le(xraw, right)), r.path.condition(), timeout)
            handle(jr, R, o, "inverse-range", r.path, replay_fn, sig)
    solver.close()
    return jr


def replay_spline(kind, K, mode, order, relation, leaves):
    res = {"reproduced": False}
    try:
        x, params, bx = SK.real_args(kind, K, mode, leaves, xname="x" if order in ("if", "f") else "y")
        try:
            mid, l1 = SK.real_call(kind, mode, x, params, bx, inverse=(order in ("fi", "i")))
        except Exception as e:  # noqa
            res["first_stage_exception"] = "%s: %s" % (type(e).__name__, e)
            if type(e).__name__ != "InputOutsideDomain" and (relation.startswith("obligation") or relation.startswith("exception")):
                res["reproduced"] = True
            return res
        if order in ("f", "i"):
            back, l2 = x, -l1
            if relation == "inverse-range":
                left, right = (bx.get("left", 0.0), bx.get("right", 1.0)) if mode == "box" else (-bx["tail_bound"], bx["tail_bound"])
                res["mid"] = float(mid[0])
                res["reproduced"] = not (left - 1e-9 <= float(mid[0]) <= right + 1e-9)
                return res
        else:
            back, l2 = SK.real_call(kind, mode, mid, params, bx, inverse=(order == "if"))
        err = float((back - x).abs().max())
        lsum = float((l1 + l2).abs().max())
        finite = bool(torch.isfinite(back).all() and torch.isfinite(mid).all() and torch.isfinite(l1).all() and torch.isfinite(l2).all())
        res.update({"start": float(x[0]), "mid": float(mid[0]), "back": float(back[0]), "max_err": err, "lad_sum": lsum, "finite": finite, "box": {k: float(v) for k, v in bx.items()}})
        scale = max(1.0, abs(float(x[0])))
        if relation.startswith("obligation"):
            res["reproduced"] = not finite
        elif relation == "roundtrip":
            res["reproduced"] = (not finite) or err > 1e-6 * scale
        elif relation == "lad-negation":
            res["reproduced"] = (not finite) or not (lsum <= 1e-6 * max(1.0, abs(float(l1[0]))))
    except Exception as e:  # noqa
        res["exception"] = "%s: %s" % (type(e).__name__, e)
        res["reproduced"] = relation.startswith("exception") or relation.startswith("obligation")
    return res


def replay_entry(kernel, signature, relation, leaves):
    SK.USE_FLOORS[0] = bool(signature.get("floors"))
    if "case" in signature:
        return replay_module(CS.by_name(signature["case"]), signature["order"], relation, leaves)
    kind, mode = kernel.split("_spline/")
    return replay_spline(kind, signature["K"], mode, signature["order"], relation, leaves)


def job(cfg):
    sc.DEFINE_SQRT_QUOTIENTS[0] = True
    sc.MINMAX_FORK[0] = cfg["type"] == "module" and cfg["case"].split("/")[0] in ("Sigmoid", "Logit")
    try:
        return job_spline(cfg) if cfg["type"] == "spline" else job_module(cfg)
    finally:
        sc.DEFINE_SQRT_QUOTIENTS[0] = False
        sc.MINMAX_FORK[0] = False


SKIP_INVERSE = ("BatchNorm",)  # eval-mode inverse exists; kept. (placeholder for transforms without inverse)


def configs(tier):
    t = 60 if tier == "quick" else 600
    cfgs = []
    Ks = (1, 2) if tier == "quick" else (1, 2, 3)
    for kind in SK.KINDS:
        for K in Ks:
            for mode, box in (("box", "sym"), ("tails", "sym")):
                if kind == "quadratic" and mode == "tails" and K == 1:
                    continue
                orders = ["f"]
                if kind != "cubic":
                    # cubic_spline(inverse=True): masked multi-branch root selection with discarded lanes and a
                    # trigonometric branch - outside the solver claims (DESIGN section 7)
                    orders += ["i", "fi"]
                    if tier != "quick":
                        orders.append("if")
                if K == 3 and kind != "linear":
                    orders = [o for o in orders if o in ("f", "fi")]  # bug hunting only (see common._run_job): two orders, short caps
                for order in orders:
                    if tier == "quick" and kind == "quadratic" and K == 2 and mode == "box" and order == "fi":
                        continue  # undecided within the quick caps; thorough tier only
                    # bug hunting only (undecided queries claim nothing): three bins of the non-linear families, and the
                    # two-bin compositions that nlsat leaves undecided or needs > 40 min for (measured in the thorough tier):
                    # forward-then-inverse of rq / quadratic, inverse-then-forward of the quadratic box spline
                    bh = kind != "linear" and (K == 3 or (K == 2 and (order == "if" or (kind == "quadratic" and mode == "box" and order == "fi"))))
                    cfgs.append({"type": "spline", "kind": kind, "K": K, "mode": mode, "box": box, "order": order, "timeout": 120 if bh else t, "decide_timeout": 8 if (tier == "quick" or bh) else 30, "bughunt": bh})
    for order in ("f", "i", "fi"):
        cfgs.append({"type": "spline", "kind": "rq", "K": 2, "mode": "box", "box": "unit", "floors": True, "order": order, "timeout": t, "decide_timeout": 8})
    for c in CS.cases_for(tier, with_history=True):
        spline_based = "Piecewise" in c.name or "CompositeCDF" in c.name
        if "PiecewiseCubic" in c.name or ("PiecewiseQuadratic" in c.name and tier == "quick"):
            # the quadratic inverse's discriminant obligation takes ~1 min per feature even at function level
            orders = ("f",)
        elif c.name.startswith("SqueezeTransform"):
            orders = ("f", "if")  # the stand-alone inverse needs an input of the squeezed shape; covered by "if"
        elif c.name.startswith("LogTanh"):
            orders = ("f", "i", "fi", "if")
        elif spline_based and not ("K=1" in c.name or "Coupling/K=2" in c.name) and (tier == "quick" or "K=2" in c.name):
            # (two-bin CDF / autoregressive modules: the stand-alone inverse of two features ran > 40 min per case in
            # the thorough tier; the inverse of the spline functions themselves is decided directly above)
            orders = ("f",)
        elif spline_based:
            # the round trip of the spline *functions* is decided above; the modules only route parameters to them
            # (the routing itself is exercised by the stand-alone runs of both directions and by the affine cases
            # of the same base classes), so the composed runs - two nested spline explorations per feature - are skipped
            orders = ("f", "i")
        else:
            orders = ("f", "i", "if", "fi")
        for order in orders:
            cfgs.append({"type": "module", "case": c.name, "order": order, "timeout": t})
    return cfgs


def main():
    rep = C.Report(PROP)
    cfgs = configs(C.TIER)
    rep.functions = C.source_hash(SK.ENCODED)
    rep.bounds = {
        "cases": sorted({c["case"] for c in cfgs if c["type"] == "module"}),
        "orders": ["inverse(forward(x))", "forward(inverse(y))"],
        "spline_functions": "linear/quadratic/cubic/rational-quadratic, bins %s, symbolic box / tail bound" % sorted({c["K"] for c in cfgs if c["type"] == "spline"}),
        "batch": "one row; features <= 3",
        "arithmetic": "exact reals",
        "per_query_timeout_s": cfgs[0]["timeout"],
    }
    rep.assumptions = [
        "real arithmetic: the round trip is exact; floating-point conditioning is outside the claim",
        "the trigonometric three-root branch of the cubic inverse is opaque (cos/sin/atan2 atoms): which root is selected is not decided; its obligations and the one-root / quadratic-fallback branches are",
        "conditioner networks are uninterpreted functions; autoregressive conditioners are stubs with the triangular dependency of C06",
        "Householder vectors non-zero, NaiveLinear weight non-singular, Sigmoid temperature > 0, affine scale != 0",
        "UMNN (bisection inverse of a quadrature) is outside the claim",
    ]
    rep.stubs = ["UFNet conditioner", "ARStub autoregressive conditioner", "torch.linspace exact", "torch.as_tensor pass-through"]
    for jr in C.run_jobs(job, cfgs):
        rep.add_job(jr)
    sys.exit(rep.finish("bounded symbolic verification of both round trips and of the log-abs-det negation on every feasible pairing of forward and inverse paths of the real code; all side obligations (finite results) decided under the documented parameter ranges"))


if __name__ == "__main__":
    main()
