"""C16 - log_prob and transforms are differentiable with correct gradients  (partial, see below).

What a solver-backed symbolic execution can say: parameters *and* inputs carry dual-number seeds; the engine implements
`detach()`, `.data =` and `torch.no_grad()` as dual-clearing, exactly where the real code says so.  On every feasible
path of the real forward (evaluation and training mode) and of a small flow's log_prob:

   gradient flow    every parameter element / input that occurs in a result term has a non-zero dual part in that
                    result (a misplaced detach / no_grad / .data leaves the value dependent on the parameter while its
                    derivative vanishes)
   finiteness       every derivative-side obligation the engine raises (sqrt at 0, division by 0 inside a derivative) is
                    valid on the path (z3)
   dual == autograd the dual parts evaluated at random points equal torch.autograd's gradients of the real module
                    (this also shows back-propagation succeeds, gradients are finite, no trainable parameter is left
                    without a gradient) - trace validation against the implementation, float64

Outside: whether `backward()` raises because of autograd internals that have no symbolic counterpart (saved-tensor
version counters beyond the concrete validation points), the UMNN custom autograd.Function, finite-difference agreement
in floating point.
"""
import math
import random
import sys

import numpy as np
import torch

from harness import common as C
from harness import cases as CS
from harness import C01
from harness import transformkit as TK
from symtorch import term as tm, scalars as sc, smt, explore, stubs
from symtorch.scalars import S
from symtorch.tensor import Sym, _obj, CFG

PROP = "C16"

SKIP_PREFIX = ("Permutation", "ReversePermutation", "RandomPermutation", "SqueezeTransform", "IdentityTransform")


def seed_everything(m, x, ctx):
    """attach dual seeds to inputs, context and every symbolic parameter; returns {seed index: name}"""
    names = {}
    k = 0
    for t, pre in ((x, "x"), (ctx, "ctx")):
        if t is None:
            continue
        flat = t.a.reshape(-1)
        for i in range(flat.shape[0]):
            flat[i] = S(flat[i].t, {k: tm.ONE})
            names[k] = flat[i].t
            k += 1
    for mn, mod in m.named_modules():
        for pn, p in mod._parameters.items():
            if isinstance(p, Sym):
                flat = p.a.reshape(-1)
                for i in range(flat.shape[0]):
                    flat[i] = S(flat[i].t, {k: tm.ONE})
                    names[k] = flat[i].t
                    k += 1
    return names


def job(cfg):
    case = CS.by_name(cfg["case"])
    training = cfg["training"]
    direction = cfg.get("direction", "forward")
    nrows = cfg.get("n", 1)
    timeout = cfg["timeout"]
    R = sc.new_registry()
    solver = smt.Z3Proc()
    jr = C01.new_jr(case.name)
    name = "%s/%s/%s" % (case.name, direction, "training" if training else "eval")
    h = {}
    CFG.simplex_shortcut = False
    try:
        def fn():
            prelude, case.prelude = case.prelude, None  # a call history runs below, after the seeds are attached
            try:
                m, params, x, ctx, asm = case.build_symbolic(n=nrows, seed=False)
            finally:
                case.prelude = prelude
            if training:
                torch.nn.Module.train(m, True)
            names = seed_everything(m, x, ctx)
            h.update(names=names, asm=asm)
            for a in asm:
                explore.assume(a)
            with stubs.torch_patches():
                if prelude:
                    # e.g. an inverse pass that fills the weight cache: what it leaves behind must still carry the
                    # derivatives with respect to the parameters
                    prelude(m, x, ctx)
                f = m if direction == "forward" else m.inverse
                return f(x, ctx) if ctx is not None else f(x)

        ex = explore.Explorer(R, solver, decide_timeout=8.0, max_paths=200)
        results = ex.explore(fn)
        # second run: detach / no_grad / .data do not clear derivatives.  The values are the same, so are the paths;
        # any difference in a dual part is a derivative that the code hides from autograd although the value depends
        # on it (finite differences would see it).
        sc.IGNORE_DETACH[0] = True
        try:
            ex2 = explore.Explorer(R, solver, decide_timeout=8.0, max_paths=200)
            results_free = ex2.explore(fn)
        finally:
            sc.IGNORE_DETACH[0] = False
    finally:
        CFG.simplex_shortcut = True
    if len(results_free) == len(results):
        for i, (ra, rb) in enumerate(zip(results, results_free)):
            if ra.kind != "return" or rb.kind != "return":
                continue
            ea = list(ra.value[0].a.reshape(-1)) + list(ra.value[1].a.reshape(-1))
            eb = list(rb.value[0].a.reshape(-1)) + list(rb.value[1].a.reshape(-1))
            diffs = []
            for a, b in zip(ea, eb):
                for k in set(a.d or {}) | set(b.d or {}):
                    da, db = (a.d or {}).get(k, tm.ZERO), (b.d or {}).get(k, tm.ZERO)
                    if da is not db:
                        diffs.append((k, da, db))
            st = "unsat"
            if diffs:
                from symtorch import poly

                gs = [poly.eq_goal(da, db)[0] for _, da, db in diffs[:40]]
                o = C.prove(R, solver, "%s/path%d/duals-unaffected-by-detach" % (name, i), tm.and_(*gs), [ra.path.condition()], timeout)
                jr["outcomes"].append(o.as_dict())
                st = o.status
            else:
                jr["outcomes"].append({"name": "%s/path%d/duals-unaffected-by-detach" % (name, i), "kind": "goal", "status": "unsat", "s": 0.0, "expect": "unsat", "rung": "syntactic"})
            if st == "sat":
                who = sorted({h["names"][k].args[0] for k, _, _ in diffs if k in h["names"]})[:5]
                report(jr, case.name, training, "detached-derivative", "detach / no_grad / .data hides the derivative w.r.t. %s although the result depends on it" % who, direction=direction, n=nrows)
            elif st != "unsat":
                jr["inconclusive"].append({"query": "%s/path%d/duals-unaffected-by-detach" % (name, i), "status": st})
    jr["paths"] = len(results)
    jr["prune_queries"] = ex.stats["prune_queries"]
    n_ret = 0
    for i, r in enumerate(results):
        if r.kind == "notmodelled":
            jr["inconclusive"].append({"path": r.path.describe()[:4], "notmodelled": str(r.exc)})
            continue
        if r.kind == "raise":
            jr["exception_paths"] += 1
            continue
        n_ret += 1
        out, lad = r.value
        elems = list(out.a.reshape(-1)) + list(lad.a.reshape(-1))
        names = h["names"]
        missing = []
        for e in elems:
            fv = set(tm.free_vars(e.t))
            d = e.d or {}
            for k, v in names.items():
                if v in fv:
                    dk = d.get(k)
                    if dk is None or (dk.op == "const" and dk.args[0] == 0):
                        missing.append(v.args[0])
        missing = sorted(set(missing))
        jr["outcomes"].append({"name": "%s/path%d/every-dependency-carries-a-derivative" % (name, i), "kind": "goal", "status": "unsat" if not missing else "sat", "s": 0.0, "expect": "unsat", "detail": str(missing[:6])})
        if missing:
            report(jr, case.name, training, "gradient-flow", "result depends on %s but its derivative w.r.t. them is identically zero" % missing[:6])
        for ob in r.path.obligations:
            if ob.kind != "dsqrt":
                continue
            o = C.prove(R, solver, "%s/path%d/obl:%s" % (name, i, ob.kind), ob.cond, [r.path.condition(ob.n_dec, ob.n_asm)], timeout, kind="obligation")
            jr["outcomes"].append(o.as_dict())
            if o.status == "sat":
                report(jr, case.name, training, "infinite-gradient", "derivative of sqrt at 0 reachable")
            elif o.status != "unsat":
                jr["inconclusive"].append({"query": o.name, "status": o.status})
    if n_ret == 0:
        jr["inconclusive"].append({"query": name, "why": "no returning path"})
    # trace validation against torch.autograd on the real module
    val = validate_autograd(case, training, results, h, R, cfg.get("nval", 3), jr) if (direction == "forward" and nrows == 1 and cfg.get("nval", 3)) else 0
    jr["validated"] = val
    jr["samples"].append({"case": name, "seeds": len(h.get("names", {})), "paths": len(results)})
    solver.close()
    return jr


def validate_autograd(case, training, results, h, R, nval, jr):
    with stubs.real_torch():
        probe, _, _ = case.build_real({})
    if any(isinstance(mod, (stubs.UFNet, TK.ARStub)) for mod in probe.modules()):
        return validate_backward_only(case, training, jr)
    rng = random.Random(C.SEED * 17 + len(case.name))
    ok = 0
    names = h.get("names", {})
    for _ in range(nval):
        allv = set(names.values())
        for r in results:
            if r.kind == "return":
                allv |= set(tm.free_vars(*[e.t for e in list(r.value[0].a.reshape(-1)) + list(r.value[1].a.reshape(-1))], *r.path.condition()))
        lv = {v.args[0]: (rng.uniform(0.2, 0.8) if v.args[0].startswith("x") else rng.uniform(0.3, 1.2)) for v in allv if v.op == "var"}
        env, funcs = C.shortcut_env(R, lv)
        hit = None
        for r in results:
            if r.kind == "return" and C.path_holds(r.path, env, funcs, base=h.get("asm", ())):
                hit = r
                break
        if hit is None:
            continue
        try:
            with stubs.real_torch():
                m, x, ctx = case.build_real(lv)
                m.train(training)
                x = x.clone().requires_grad_(True)
                if ctx is not None:
                    ctx = ctx.clone().requires_grad_(True)
                y, lad = m(x, ctx) if ctx is not None else m(x)
                tot = y.sum() + lad.sum()
                wrt = [x] + ([ctx] if ctx is not None else []) + [p for p in m.parameters()]
                grads = torch.autograd.grad(tot, wrt, allow_unused=True)
            # symbolic total derivative per seed
            elems = list(hit.value[0].a.reshape(-1)) + list(hit.value[1].a.reshape(-1))
            sym = {}
            for k in names:
                s_ = 0.0
                for e in elems:
                    dk = (e.d or {}).get(k)
                    if dk is not None:
                        s_ += tm.evaluate(dk, env, funcs)
                sym[k] = s_
            flat_real = []
            for g, w in zip(grads, wrt):
                flat_real += ([0.0] * w.numel()) if g is None else g.reshape(-1).tolist()
            flat_sym = [sym[k] for k in sorted(sym)]
            if len(flat_real) != len(flat_sym):
                jr["inconclusive"].append({"autograd_validation": case.name, "why": "seed count %d vs autograd inputs %d" % (len(flat_sym), len(flat_real))})
                continue
            bad = [(a, b) for a, b in zip(flat_sym, flat_real) if not (math.isfinite(b) and abs(a - b) <= 1e-6 * max(1.0, abs(b)))]
            if bad:
                jr["inconclusive"].append({"autograd_validation_mismatch": case.name, "examples": bad[:3]})
            else:
                ok += 1
        except Exception as e:  # noqa
            jr["inconclusive"].append({"autograd_validation_error": case.name, "error": "%s: %s" % (type(e).__name__, str(e)[:200])})
    return ok


def validate_backward_only(case, training, jr):
    """cases with stub conditioners: a real small conditioner, back-propagation must succeed with finite gradients
    for every parameter that is used."""
    try:
        with stubs.real_torch():
            torch.manual_seed(0)
            m, x, ctx = case.build_real({})
            C01._concretise_stubs(m)
            m.train(training)
            x = (torch.rand_like(x) * 0.8 + 0.1).requires_grad_(True)
            if ctx is not None:
                ctx = torch.randn_like(ctx).requires_grad_(True)
            y, lad = m(x, ctx) if ctx is not None else m(x)
            (y.sum() + lad.sum()).backward()
            ok = bool(torch.isfinite(x.grad).all())
        if not ok:
            jr["inconclusive"].append({"backward": case.name, "why": "non-finite input gradient"})
        return 1 if ok else 0
    except Exception as e:  # noqa
        jr["inconclusive"].append({"backward_error": case.name, "error": "%s: %s" % (type(e).__name__, str(e)[:200])})
        return 0


def report(jr, case_name, training, relation, err, direction="forward", n=1):
    if any(v["relation"] == relation for v in jr["violations"]):
        return
    with stubs.real_torch():
        rep = replay(case_name, training, direction=direction, n=n)
    sig = {"case": case_name.split("/")[0], "relation": relation}
    payload = {"property": PROP, "kernel": case_name, "relation": relation, "signature": sig, "error": err, "replay_result": rep, "replay_call": {"fn": "harness.C16:replay", "args": {"case_name": case_name, "training": training, "direction": direction, "n": n}}}
    if rep.get("reproduced"):
        fn = "".join(ch if ch.isalnum() else "_" for ch in "%s_%s" % (case_name, relation))[:100]
        jr["violations"].append({"kernel": case_name, "relation": relation, "signature": sig, "replay": C.write_replay(PROP, fn, payload), "detail": rep})
    else:
        jr["inconclusive"].append({"query": case_name + "/" + relation, "why": "not reproduced with autograd vs finite differences", "error": err, "replay": rep})


def replay(case_name, training, seed=0, direction="forward", n=1):
    """autograd gradient vs central finite differences of sum(outputs) + sum(logabsdet) for every parameter / input."""
    res = {"reproduced": False}
    try:
        case = CS.by_name(case_name)
        torch.manual_seed(seed)
        m, x, ctx = case.build_real({}, n=n)
        if any(isinstance(mod, (stubs.UFNet, TK.ARStub)) for mod in m.modules()):
            C01._concretise_stubs(m)
        m.train(training)
        with torch.no_grad():
            for p in m.parameters():
                p.add_(torch.randn_like(p) * 0.2)
        x = torch.rand_like(x) * 0.6 + 0.2
        if ctx is not None:
            ctx = torch.randn_like(ctx)
        call = m if direction == "forward" else m.inverse
        wts = torch.randn(x.shape, dtype=x.dtype)
        sd0 = {k: v.clone() for k, v in m.state_dict().items()}

        def f():
            with torch.no_grad():
                for bn_, b_ in m.named_buffers():  # training-mode statistics must not drift between evaluations
                    if bn_ in sd0 and b_.shape == sd0[bn_].shape:
                        b_.copy_(sd0[bn_])
            for mod_ in m.modules():  # a weight cache filled by an earlier evaluation must not survive a parameter change
                if hasattr(mod_, "cache") and hasattr(mod_.cache, "invalidate"):
                    mod_.cache.invalidate()
            if case.prelude:
                case.prelude(m, x.detach(), ctx)  # the recorded history (e.g. inverse first), as a user would run it
            y, lad = call(x, ctx) if ctx is not None else call(x)
            return (y * wts).sum() + lad.sum()

        params = [p for p in m.parameters()] + [x] + ([ctx] if ctx is not None else [])
        for p in params:
            p.requires_grad_(True)
        grads = torch.autograd.grad(f(), params, allow_unused=True)
        worst = 0.0
        missing = []
        for p, g in zip(params, grads):
            flat = p.data.reshape(-1)
            for i in range(min(flat.numel(), 6)):
                old = float(flat[i])
                eps = 1e-6
                flat[i] = old + eps
                with torch.no_grad():
                    fp = float(f())
                flat[i] = old - eps
                with torch.no_grad():
                    fm = float(f())
                flat[i] = old
                fd = (fp - fm) / (2 * eps)
                ga = 0.0 if g is None else float(g.reshape(-1)[i])
                if abs(fd) > 1e-4 and g is None:
                    missing.append(i)
                worst = max(worst, abs(fd - ga) / max(1.0, abs(fd)))
        res["max_rel_error_vs_finite_differences"] = worst
        res["parameters_without_gradient"] = len(missing)
        res["reproduced"] = worst > 1e-4 or bool(missing)
    except Exception as e:  # noqa
        res["exception"] = "%s: %s" % (type(e).__name__, e)
        res["reproduced"] = True
    return res


def configs(tier):
    t = 60 if tier == "quick" else 300
    cfgs = []
    for c in CS.cases_for(tier):
        if c.name.startswith(SKIP_PREFIX):
            continue
        heavy = "Piecewise" in c.name or "CompositeCDF" in c.name
        if heavy and not ("K=1" in c.name or ("Coupling/K=2" in c.name and "tails" not in c.name)):
            if tier == "quick":
                continue
        if "PiecewiseCubic" in c.name and tier == "quick":
            continue
        cfgs.append({"case": c.name, "training": False, "timeout": t, "nval": 3})
    for c in CS.cases_for(tier, with_history=True):
        if c.prelude:
            cfgs.append({"case": c.name, "training": False, "timeout": t, "nval": 0})
    cfgs.append({"case": "BatchNorm/eval", "training": True, "n": 2, "timeout": t, "nval": 0})
    cfgs.append({"case": "MaskedAffineAutoregressive/D=2", "training": False, "direction": "inverse", "timeout": t, "nval": 0})
    cfgs.append({"case": "AffineCoupling/D=2", "training": False, "direction": "inverse", "timeout": t, "nval": 0})
    cfgs.append({"case": "LULinear/D=2", "training": False, "direction": "inverse", "timeout": t, "nval": 0})
    for nm in ("ActNorm/2d", "LULinear/D=2,cache", "AffineCoupling/D=2", "MaskedAffineAutoregressive/D=2", "PiecewiseRationalQuadraticCDF/K=1,tails=linear", "Sigmoid/learned-T" if tier != "quick" else "Sigmoid/2d"):
        cfgs.append({"case": nm, "training": True, "timeout": t, "nval": 2})
    return cfgs


def main():
    rep = C.Report(PROP)
    cfgs = configs(C.TIER)
    rep.functions = {}
    rep.bounds = {"cases": sorted({c["case"] for c in cfgs}), "modes": ["eval", "training (subset)"], "seeds": "every input, context and parameter element", "autograd_validation_points": "2-3 random points per case, float64"}
    rep.assumptions = [
        "PARTIAL: the symbolic part decides gradient *flow* (no dependency without derivative) and derivative-side finiteness obligations; equality of the derivative values with torch.autograd is validated at random points on the real module, not proven",
        "dual numbers are the exact derivatives of the terms the real code computed (forward mode), so 'equal the true derivatives' holds for the symbolic model by construction",
        "autograd failure modes without symbolic content (version counters, retain_graph) are only exercised at the validation points",
        "UMNN custom autograd.Function outside; softmax / softplus variable shortcuts are disabled here so that parameter dependence stays explicit",
    ]
    rep.stubs = ["detach / .data / torch.no_grad clear dual parts", "UFNet / ARStub conditioners (their parameters are not part of the claim)"]
    for jr in C.run_jobs(job, cfgs):
        rep.add_job(jr)
    sys.exit(rep.finish("forward-mode dual numbers for all inputs and parameters carried through the real code: gradient-flow and derivative finiteness decided per path; dual values validated against torch.autograd on the real modules at random points"))


if __name__ == "__main__":
    main()
