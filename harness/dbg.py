"""debug helper: python -m harness.dbg C09 '{"kind":"rq","K":2,...}'  -> runs one job, prints outcomes."""
import importlib
import json
import sys
import time

from harness import common as C


def main():
    mod = importlib.import_module("harness." + sys.argv[1])
    cfg = json.loads(sys.argv[2])
    t0 = time.time()
    jr = C._run_job((mod.job, cfg))
    print("job_s", jr.get("job_s"), "paths", jr.get("paths"), "prune", jr.get("prune_queries"), "validated", jr.get("validated"), "syntactic", jr.get("syntactic"))
    for o in jr.get("outcomes", []):
        flag = "" if (o["status"] == o.get("expect", "unsat")) else "   <<<<<<"
        print("  %-70s %-8s %6.2fs rung=%s%s" % (o["name"][-70:], o["status"], o["s"], o.get("rung"), flag))
    for v in jr.get("violations", []):
        print("VIOL", json.dumps(v, default=str)[:600])
    for i in jr.get("inconclusive", []):
        print("INCONC", json.dumps(i, default=str)[:1500])


if __name__ == "__main__":
    main()
