"""C12 - batch items are evaluated independently in evaluation mode.

Every catalogued transform (harness/cases.py), the base distributions and a small flow run in evaluation mode on a
batch of N = 2 rows of *distinct* symbols (inputs and context).  On every feasible path (for spline tails: every
inside / outside pattern of the two rows, so the boolean-mask gather / scatter pairing is exercised with torch's
real compaction semantics) the claim is decided on the result terms:

   independence   row r of outputs / log-abs-dets / log-probs mentions symbols of row r only
   equivariance   row 1's terms are row 0's terms with the row index renamed, whenever the two rows took mirrored
                  branches (same function applied to every row)
   batch size 1   the N = 1 run yields, for its single row, a term that also occurs as row 0 of an N = 2 path

The library's own conditioner networks (ResidualNet, ConvResidualNet, MADE with batch-norm) are run for real in the
taint domain with row-tagged taints: output row r is tainted by input row r only.
"""
import sys

import numpy as np
import torch
from torch.nn import functional as F

from harness import common as C
from harness import cases as CS
from harness import C01
from harness import transformkit as TK
from symtorch import term as tm, scalars as sc, smt, explore, stubs, poly
from symtorch.scalars import S
from symtorch.tensor import Sym, _obj
from symtorch.taint import TS

from nflows.nn import nets
from nflows.transforms import made as made_t
from nflows.distributions import normal as DN
from nflows.nn.nde import made as made_n
from nflows.flows import base as FB
from nflows.transforms import standard as ST

PROP = "C12"


def row_of(name):
    parts = name.split("_")
    if parts[0] in ("x", "ctx", "inp") and len(parts) > 1 and parts[1].isdigit():
        return int(parts[1])
    return None


def rows_used(terms):
    used = set()
    for v in tm.free_vars(*terms):
        r = row_of(v.args[0])
        if r is not None:
            used.add(r)
    return used


def rename_rows(t, a, b, names):
    mp = {}
    for v in tm.free_vars(t):
        nm = v.args[0]
        r = row_of(nm)
        if r == a:
            parts = nm.split("_")
            parts[1] = str(b)
            mp[v] = tm.var("_".join(parts), v.sort)
        elif r == b:
            parts = nm.split("_")
            parts[1] = str(a)
            mp[v] = tm.var("_".join(parts), v.sort)
    return sc.subst(t, mp) if mp else t


def job_case(cfg):
    case = CS.by_name(cfg["case"])
    direction = cfg["direction"]
    R = sc.new_registry()
    solver = smt.Z3Proc()
    jr = C01.new_jr(case.name)
    h = {}

    def fn():
        m, params, x, ctx, asm = case.build_symbolic(n=2, seed=False)
        h.update(x=x, ctx=ctx)
        for a in asm:
            explore.assume(a)
        with stubs.torch_patches():
            f = m if direction == "forward" else m.inverse
            return f(x, ctx) if ctx is not None else f(x)

    ex = explore.Explorer(R, solver, decide_timeout=8.0, max_paths=cfg.get("max_paths", 400))
    results = ex.explore(fn)
    jr["paths"] = len(results)
    jr["prune_queries"] = ex.stats["prune_queries"]
    name = "%s/%s" % (case.name, direction)
    n_ret = 0
    sym_paths = 0
    for i, r in enumerate(results):
        if r.kind == "notmodelled":
            jr["inconclusive"].append({"path": r.path.describe()[:4], "notmodelled": str(r.exc)})
            continue
        if r.kind == "raise":
            jr["exception_paths"] += 1
            continue
        n_ret += 1
        out, lad = r.value
        bad = None
        for row in (0, 1):
            terms = [s.t for s in out.a[row].reshape(-1)]
            la = lad.a.reshape(-1)
            if la.shape[0] == 2:
                terms.append(la[row].t)
            other = rows_used(terms) - {row}
            if other:
                bad = "row %d of the results depends on batch row(s) %s" % (row, sorted(other))
        jr["outcomes"].append({"name": "%s/path%d/rows-independent" % (name, i), "kind": "goal", "status": "unsat" if bad is None else "sat", "s": 0.0, "expect": "unsat", "detail": bad or ""})
        if bad:
            report(jr, case.name, direction, "row-independence", bad)
        # equivariance on mirrored paths: renaming row 0 <-> 1 in the path condition gives the same condition set
        conds = set(r.path.condition())
        mirrored = {rename_rows(c, 0, 1, None) for c in conds}
        if mirrored == conds:
            sym_paths += 1
            ok = True
            for a, b in zip(out.a[0].reshape(-1), out.a[1].reshape(-1)):
                if rename_rows(a.t, 0, 1, None) is not b.t:
                    ok = False
            la = lad.a.reshape(-1)
            if la.shape[0] == 2 and rename_rows(la[0].t, 0, 1, None) is not la[1].t:
                ok = False
            jr["outcomes"].append({"name": "%s/path%d/row1==row0-renamed" % (name, i), "kind": "goal", "status": "unsat" if ok else "sat", "s": 0.0, "expect": "unsat"})
            if not ok:
                report(jr, case.name, direction, "row-equivariance", "row 1 is not row 0 with the index renamed")
    # batch size one
    h1 = {}

    def fn1():
        m, params, x, ctx, asm = case.build_symbolic(n=1, seed=False)
        for a in asm:
            explore.assume(a)
        with stubs.torch_patches():
            f = m if direction == "forward" else m.inverse
            return f(x, ctx) if ctx is not None else f(x)

    ex1 = explore.Explorer(R, solver, decide_timeout=8.0, max_paths=200)
    res1 = ex1.explore(fn1)
    row0_terms = set()
    for r in results:
        if r.kind == "return":
            row0_terms.add(tuple(s.t for s in r.value[0].a[0].reshape(-1)))
    miss = 0
    for r in res1:
        if r.kind == "return":
            if tuple(s.t for s in r.value[0].a[0].reshape(-1)) not in row0_terms:
                miss += 1
    jr["outcomes"].append({"name": name + "/batch-size-1-terms-occur-as-row-0-of-a-2-row-batch", "kind": "goal", "status": "unsat" if miss == 0 else "sat", "s": 0.0, "expect": "unsat", "detail": "%d single-row paths without a matching row 0" % miss})
    if miss:
        report(jr, case.name, direction, "batch-size-one", "a batch of one is evaluated differently from row 0 of a batch of two")
    # row 0 of a two-row batch is the same function of row 0 whatever row 1 does: on every two-row path P, the row-0
    # results equal those of the single-row path Q that the same row-0 values take (P and Q with different row-0
    # terms must have incompatible conditions, or provably equal values)
    singles = [q for q in res1 if q.kind == "return"]
    twos = [r for r in results if r.kind == "return"]
    n_cross = 0
    import time as _time

    t_cross = _time.time()
    budget = 120 if C.TIER == "quick" else 600
    if len(singles) * len(twos) <= (400 if C.TIER == "quick" else 4000):
        for pi, r in enumerate(twos):
            if _time.time() - t_cross > budget:
                jr.setdefault("notes", []).append("cross-path row-0 comparison stopped after %d s (%d of %d two-row paths compared)" % (budget, pi, len(twos)))
                break
            t2 = [s.t for s in r.value[0].a[0].reshape(-1)] + [r.value[1].a.reshape(-1)[0].t]
            for qi, q in enumerate(singles):
                t1 = [s.t for s in q.value[0].a[0].reshape(-1)] + [q.value[1].a.reshape(-1)[0].t]
                if len(t1) != len(t2):
                    continue
                if all(a is b for a, b in zip(t1, t2)):
                    continue
                cond = list(r.path.condition()) + list(q.path.condition())
                goal = tm.and_(*[poly.eq_goal(a, b)[0] for a, b in zip(t1, t2)])
                n_cross += 1
                o = C.prove(R, solver, "%s/two-row-path%d-vs-single-path%d/row0-same-function" % (name, pi, qi), goal, [cond], 20)
                jr["outcomes"].append(dict(o.as_dict(), expect="unsat", kind="goal"))
                if o.status == "sat":
                    leaves = C.leaf_values(R, o.model)
                    with stubs.real_torch():
                        rep = replay_rows(case.name, direction, leaves)
                    sig = {"case": case.name.split("/")[0], "relation": "row0-depends-on-row1"}
                    payload = {"property": PROP, "kernel": case.name, "relation": "row0-depends-on-row1", "signature": sig, "leaves": leaves, "replay_result": rep, "replay_call": {"fn": "harness.C12:replay_rows", "args": {"case_name": case.name, "direction": direction, "leaves": leaves}}}
                    if rep.get("reproduced"):
                        fnm = "".join(ch if ch.isalnum() else "_" for ch in "%s_%s_row0_vs_single" % (case.name, direction))[:100]
                        if not any(v["relation"] == "row0-depends-on-row1" for v in jr["violations"]):
                            jr["violations"].append({"kernel": case.name, "relation": "row0-depends-on-row1", "signature": sig, "replay": C.write_replay(PROP, fnm, payload), "detail": rep})
                    else:
                        jr["inconclusive"].append({"query": o.name, "why": "solver model not reproduced on real tensors", "leaves": leaves, "replay": rep})
                elif o.status != "unsat":
                    jr["inconclusive"].append({"query": o.name, "status": o.status})
    else:
        jr.setdefault("notes", []).append("cross-path row-0 comparison skipped: %d x %d paths" % (len(twos), len(singles)))
    if n_ret == 0:
        jr["inconclusive"].append({"query": name, "why": "no returning path"})
    jr["samples"].append({"case": name, "paths": len(results), "mirrored_paths": sym_paths, "cross_path_queries": n_cross})
    solver.close()
    return jr


def report(jr, case_name, direction, relation, err):
    with stubs.real_torch():
        rep = replay(case_name, direction)
    sig = {"case": case_name.split("/")[0], "relation": relation}
    payload = {"property": PROP, "kernel": case_name, "relation": relation, "signature": sig, "error": err, "replay_result": rep, "replay_call": {"fn": "harness.C12:replay", "args": {"case_name": case_name, "direction": direction}}}
    if rep.get("reproduced"):
        fn = "".join(ch if ch.isalnum() else "_" for ch in "%s_%s_%s" % (case_name, direction, relation))[:100]
        jr["violations"].append({"kernel": case_name, "relation": relation, "signature": sig, "replay": C.write_replay(PROP, fn, payload), "detail": rep})
    else:
        jr["inconclusive"].append({"query": "%s/%s/%s" % (case_name, direction, relation), "why": "not reproduced on real tensors", "error": err, "replay": rep})


def replay(case_name, direction, seed=0):
    """real tensors: evaluating rows one at a time / permuted must give the same rows."""
    res = {"reproduced": False}
    try:
        case = CS.by_name(case_name)
        torch.manual_seed(seed)
        rng = np.random.RandomState(seed)
        leaves = {}
        m, x, ctx = case.build_real(leaves, n=3)
        if any(isinstance(mod, (stubs.UFNet, TK.ARStub)) for mod in m.modules()):
            C01._concretise_stubs(m)
        with torch.no_grad():
            for p in m.parameters():
                p.add_(torch.randn_like(p) * 0.3)
            x = torch.rand_like(x) * 0.8 + 0.1
            if ctx is not None:
                ctx = torch.randn_like(ctx)
            import copy

            def call(a, c):
                # the same model state for every call (a call must not change it; if it does - data-dependent
                # initialisation in evaluation mode - the comparison has to start from the same state each time)
                mm = copy.deepcopy(m)
                ff = mm if direction == "forward" else mm.inverse
                return ff(a, c) if ctx is not None else ff(a)

            y, l = call(x, ctx)
            worst = 0.0

            def dev(a, b):
                d = float((a - b).abs().max())
                return float("inf") if d != d else d  # NaN on one side is a deviation

            for i in range(3):
                yi, li = call(x[i:i + 1], None if ctx is None else ctx[i:i + 1])
                worst = max(worst, dev(yi, y[i:i + 1]), dev(li, l[i:i + 1]))
            y2, l2 = call(x[:2], None if ctx is None else ctx[:2])
            worst = max(worst, dev(y2, y[:2]), dev(l2, l[:2]))
            perm = torch.tensor([2, 0, 1])
            yp, lp = call(x[perm], None if ctx is None else ctx[perm])
            worst = max(worst, dev(yp, y[perm]), dev(lp, l[perm]))
        res["max_deviation"] = worst
        res["reproduced"] = worst > 1e-9
    except Exception as e:  # noqa
        res["exception"] = "%s: %s" % (type(e).__name__, e)
    return res


def replay_rows(case_name, direction, leaves):
    """real tensors from a solver model: row 0 of the two-row batch versus row 0 evaluated alone."""
    res = {"reproduced": False}
    try:
        case = CS.by_name(case_name)
        m, x, ctx = case.build_real(leaves, n=2)
        if any(isinstance(mod, (stubs.UFNet, TK.ARStub)) for mod in m.modules()):
            C01._concretise_stubs(m)
        f = m if direction == "forward" else m.inverse
        call = (lambda a, c: f(a, c)) if ctx is not None else (lambda a, c: f(a))
        with torch.no_grad():
            y, l = call(x, ctx)
            y0, l0 = call(x[0:1], None if ctx is None else ctx[0:1])
        dev = max(float((y[0:1] - y0).abs().max()), float((l[0:1] - l0).abs().max()))
        res.update({"x": x.reshape(2, -1).tolist(), "row0_in_batch": y[0].reshape(-1).tolist(), "row0_alone": y0.reshape(-1).tolist(), "max_deviation": dev})
        res["reproduced"] = (not dev == dev) or dev > 1e-9
    except Exception as e:  # noqa
        res["exception"] = "%s: %s" % (type(e).__name__, e)
    return res


def job_taint_net(cfg):
    """the library's own networks in evaluation mode, row-tagged taints."""
    kind = cfg["net"]
    jr = C01.new_jr("conditioner:" + kind)
    N = 2
    try:
        torch.manual_seed(0)
        if kind == "ResidualNet":
            net = nets.ResidualNet(3, 4, hidden_features=3, context_features=2, num_blocks=1, use_batch_norm=True)
            shape, cshape = (N, 3), (N, 2)
        elif kind == "ResidualNet/no-context":
            net = nets.ResidualNet(2, 2, hidden_features=2, num_blocks=2, use_batch_norm=True, dropout_probability=0.5)
            shape, cshape = (N, 2), None
        elif kind == "ConvResidualNet":
            net = nets.ConvResidualNet(1, 2, hidden_channels=2, num_blocks=1, use_batch_norm=True)
            shape, cshape = (N, 1, 2, 2), None
        elif kind == "MADE":
            net = made_t.MADE(3, 4, context_features=2, num_blocks=1, use_batch_norm=True)
            shape, cshape = (N, 3), (N, 2)
        else:
            raise ValueError(kind)
        net.eval()
        for mod in net.modules():
            for pn, p in list(mod._parameters.items()):
                if p is not None:
                    a = np.empty(tuple(p.shape), dtype=object)
                    a.fill(TS.arbitrary(N))
                    mod._parameters[pn] = Sym(a)
            for bn, b in list(mod._buffers.items()):
                if b is not None and b.is_floating_point() and bn in ("running_mean", "running_var"):
                    a = np.empty(tuple(b.shape), dtype=object)
                    a.fill(TS.arbitrary(N))
                    mod._buffers[bn] = Sym(a)
        x = np.empty(shape, dtype=object)
        for idx in np.ndindex(shape):
            x[idx] = TS.input(N, idx[0])
        ctx = None
        if cshape is not None:
            c = np.empty(cshape, dtype=object)
            for idx in np.ndindex(cshape):
                c[idx] = TS.input(N, idx[0])
            ctx = Sym(c)
        with stubs.torch_patches(random=False):
            out = net(Sym(x), ctx) if ctx is not None else net(Sym(x))
        bad = []
        for idx in np.ndindex(out.a.shape):
            e = out.a[idx]
            for r in range(N):
                if r != idx[0] and e.dep[r] is not tm.FALSE:
                    bad.append((idx, r))
        jr["outcomes"].append({"name": "%s/eval/output-row-tainted-by-its-own-row-only" % kind, "kind": "goal", "status": "unsat" if not bad else "sat", "s": 0.0, "expect": "unsat", "detail": str(bad[:3])})
        if bad:
            jr["inconclusive"].append({"query": kind, "why": "cross-row taint %s (library network mixes batch rows in eval mode?)" % bad[:3]})
        jr["paths"] = 1
        jr["samples"].append({"network": kind, "rows": N, "claim": "taint of output row r == {r}"})
    except explore.NotModelled as e:
        jr["inconclusive"].append({"query": kind, "notmodelled": str(e)})
    return jr


def job_dist(cfg):
    """base distributions and a flow: log_prob rows depend on their own row only."""
    R = sc.new_registry()
    jr = C01.new_jr("distributions")
    with stubs.torch_patches():
        R.begin_run()
        x = stubs.named_tensor("x", (2, 2))
        ctx = stubs.named_tensor("ctx", (2, 4))
        t = ST.PointwiseAffineTransform(shift=0.5, scale=2.0)
        t._buffers["_shift"] = stubs.scalar("fb")
        t._buffers["_scale"] = stubs.scalar("fa", lo=0)
        mog = made_n.MixtureOfGaussiansMADE(2, 4, num_blocks=1, num_mixture_components=2, custom_initialization=False)
        mog.eval()
        # the conditioner output of row i is a function of row i alone (taint job below / C06): free symbols tagged by row
        mog_out = stubs.named_tensor("inp", (2, 2 * 3 * 2))
        mog.forward = lambda inputs, context=None: mog_out
        items = [
            ("MixtureOfGaussiansMADE.log_prob", lambda: mog.log_prob(x)),
            ("StandardNormal.log_prob", lambda: DN.StandardNormal([2]).log_prob(x)),
            ("ConditionalDiagonalNormal.log_prob", lambda: DN.ConditionalDiagonalNormal([2]).log_prob(x, context=ctx)),
            ("Flow.log_prob", lambda: FB.Flow(t, DN.ConditionalDiagonalNormal([2])).log_prob(x, context=ctx)),
            ("Flow.transform_to_noise", lambda: FB.Flow(t, DN.StandardNormal([2])).transform_to_noise(x)),
        ]
        for nm, f in items:
            out = f()
            bad = None
            for row in (0, 1):
                other = rows_used([s.t for s in np.asarray(out.a[row], dtype=object).reshape(-1)]) - {row}
                if other:
                    bad = "row %d depends on rows %s" % (row, sorted(other))
            jr["outcomes"].append({"name": nm + "/rows-independent", "kind": "goal", "status": "unsat" if bad is None else "sat", "s": 0.0, "expect": "unsat", "detail": bad or ""})
            if bad:
                with stubs.real_torch():
                    rep = replay_dist(nm)
                sig = {"case": nm, "relation": "row-independence"}
                payload = {"property": PROP, "kernel": nm, "relation": "row-independence", "signature": sig, "error": bad, "replay_result": rep, "replay_call": {"fn": "harness.C12:replay_dist", "args": {"name": nm}}}
                if rep.get("reproduced"):
                    jr["violations"].append({"kernel": nm, "relation": "row-independence", "signature": sig, "replay": C.write_replay(PROP, "".join(ch if ch.isalnum() else "_" for ch in nm), payload), "detail": rep})
                else:
                    jr["inconclusive"].append({"query": nm, "why": bad, "replay": rep})
    jr["paths"] = len(items)
    jr["samples"].append({"distributions": [i[0] for i in items]})
    return jr


def replay_dist(name):
    """real tensors: every row of a batch of three equals the row evaluated alone."""
    res = {"reproduced": False}
    try:
        torch.manual_seed(0)
        x = torch.randn(3, 2, dtype=torch.float64)
        ctx = torch.randn(3, 4, dtype=torch.float64)
        t = ST.PointwiseAffineTransform(shift=0.5, scale=2.0)
        fs = {
            "StandardNormal.log_prob": lambda a, c: DN.StandardNormal([2]).log_prob(a),
            "ConditionalDiagonalNormal.log_prob": lambda a, c: DN.ConditionalDiagonalNormal([2]).log_prob(a, context=c),
            "Flow.log_prob": lambda a, c: FB.Flow(t, DN.ConditionalDiagonalNormal([2])).log_prob(a, context=c),
            "Flow.transform_to_noise": lambda a, c: FB.Flow(t, DN.StandardNormal([2])).transform_to_noise(a),
        }
        worst = 0.0
        if name == "MixtureOfGaussiansMADE.log_prob":
            # a shared stabilising constant cancels in exact arithmetic; it shows when one row is far from the others
            for dt, big in ((torch.float32, 16.0), (torch.float64, 1000.0)):
                torch.manual_seed(1)
                net = made_n.MixtureOfGaussiansMADE(2, 8, num_blocks=1, num_mixture_components=2).to(dt).eval()
                xb = torch.tensor([[0.1, -0.3], [big, big], [0.5, 0.2]], dtype=dt)
                with torch.no_grad():
                    full = net.log_prob(xb)
                    for i in range(3):
                        one = net.log_prob(xb[i:i + 1])
                        dev = float((one - full[i:i + 1]).abs().max())
                        if not (dev == dev) or bool(torch.isinf(one).any()) != bool(torch.isinf(full[i:i + 1]).any()):
                            dev = float("inf")
                        worst = max(worst, dev / max(1.0, float(one.abs().max()) if bool(torch.isfinite(one).all()) else 1.0))
            res["max_relative_deviation"] = worst
            res["reproduced"] = worst > 1e-4
            return res
        f = fs[name]
        with torch.no_grad():
            full = f(x, ctx)
            for i in range(3):
                one = f(x[i:i + 1], ctx[i:i + 1])
                worst = max(worst, float((one - full[i:i + 1]).abs().max()))
        res["max_deviation"] = worst
        res["reproduced"] = worst > 1e-9
    except Exception as e:  # noqa
        res["exception"] = "%s: %s" % (type(e).__name__, e)
    return res


def job(cfg):
    from symtorch.tensor import CFG

    # the softmax / softplus variable shortcut would hide which row a parameter came from: keep terms explicit
    CFG.simplex_shortcut = False
    try:
        return _job(cfg)
    finally:
        CFG.simplex_shortcut = True


def _job(cfg):
    if cfg["type"] == "case":
        return job_case(cfg)
    if cfg["type"] == "net":
        return job_taint_net(cfg)
    return job_dist(cfg)


def configs(tier):
    cfgs = []
    for c in CS.cases_for(tier):
        heavy = "Piecewise" in c.name or "CompositeCDF" in c.name
        if heavy and not ("K=1" in c.name and ("tails=linear" in c.name or "Coupling" in c.name)):
            if tier == "quick" or "K=2,tails" not in c.name:
                continue
        if c.name.startswith("LogTanh") or c.name.startswith("GatedLinearUnit/D=2,ctx=1"):
            pass
        for direction in ("forward", "inverse"):
            if direction == "inverse" and ("PiecewiseCubic" in c.name or "PiecewiseQuadratic" in c.name or c.name.startswith("SqueezeTransform") or ("MaskedPiecewise" in c.name and "K=2" in c.name)):
                continue  # (the squeeze inverse needs an input of the squeezed shape; its forward is covered; the two-bin autoregressive spline inverse on two rows - D passes x rows x (bins + tails) branches - ran > 40 min on one core)
            cfgs.append({"type": "case", "case": c.name, "direction": direction})
    for net in ("ResidualNet", "ResidualNet/no-context", "ConvResidualNet", "MADE"):
        cfgs.append({"type": "net", "net": net})
    cfgs.append({"type": "dist"})
    return cfgs


def main():
    rep = C.Report(PROP)
    cfgs = configs(C.TIER)
    rep.functions = C.source_hash([nets.ResidualNet, nets.ConvResidualNet, made_t.MADE, FB.Flow._log_prob, DN.StandardNormal._log_prob, DN.ConditionalDiagonalNormal._log_prob])
    rep.bounds = {"cases": sorted({c["case"] for c in cfgs if c["type"] == "case"}), "batch": "2 rows of distinct symbols (and 1 row)", "directions": ["forward", "inverse"], "networks": ["ResidualNet", "ConvResidualNet", "MADE (batch-norm in eval mode)"]}
    rep.assumptions = ["evaluation mode", "user-supplied conditioners are row-wise uninterpreted functions (that is their contract); the library's own networks are checked in the taint domain", "two rows: a row-mixing defect needs only two rows to show"]
    rep.stubs = ["UFNet / ARStub conditioners (row-wise)", "taint-domain execution of ResidualNet / ConvResidualNet / MADE"]
    for jr in C.run_jobs(job, cfgs):
        rep.add_job(jr)
    sys.exit(rep.finish("the real transforms / distributions on a two-row symbolic batch: row independence, row equivariance and batch-size-one agreement decided on the result terms of every feasible path; library networks in a row-tagged taint domain"))


if __name__ == "__main__":
    main()
