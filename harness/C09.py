"""C09 - spline transformers are increasing bijections of their box, identity in the tails.

Per feasible path of the real spline function (one path per bin / tail side / boundary case), with all
parameters, the box (or tail bound) and the input symbolic:
  mono      dy/dx > 0                                   (dual part of the output term)
  range     bottom <= y <= top                          (inside the box / tail bound)
  ends      x == left => y == bottom, x == right => y == top
  tails     outside +-B the output term *is* the input term and logabsdet is the constant 0
  cont      for every pair of paths P,Q and every x in closure(P) & closure(Q): y_P(x) == y_Q(x)
            (continuity across knots and at the tail junction; closure = strict comparisons made weak)
Strict monotonicity on the whole interval follows from positivity per piece + continuity (mean value theorem).
"""
import random
import sys
import time

import torch

from harness import common as C
from harness import splinekit as SK
from symtorch import term as tm, scalars as sc, smt, explore, stubs, local
from symtorch.tensor import Sym

PROP = "C09"


def closure(cond):
    """weaken strict comparisons (the topological closure of a conjunction of polynomial inequalities in x)."""
    if cond.op == "lt0":
        return tm.le0(cond.args[0])
    if cond.op == "and":
        return tm.and_(*[closure(c) for c in cond.args])
    if cond.op == "or":
        return tm.or_(*[closure(c) for c in cond.args])
    if cond.op == "not" and cond.args[0].op == "eq0":
        return tm.TRUE
    return cond


def job(cfg):
    SK.USE_FLOORS[0] = bool(cfg.get("floors"))
    kind, K, mode, box = cfg["kind"], cfg["K"], cfg["mode"], cfg["box"]
    timeout = cfg["timeout"]
    inv = bool(cfg.get("inverse"))  # the inverse=True evaluation is an increasing map of [bottom, top] onto [left, right]
    R = sc.new_registry()
    solver = smt.Z3Proc()
    ex = explore.Explorer(R, solver, decide_timeout=cfg.get("decide_timeout", 10.0))
    holder = {}

    def fn():
        x, params, bx = SK.sym_setup(kind, K, mode, box=box)
        holder["x"], holder["bx"] = x, bx
        with stubs.torch_patches():
            out, lad = SK.call(kind, mode, x, params, bx, inverse=inv)
        return out, lad

    results = ex.explore(fn)
    jr = {"kernel": "%s/%s" % (kind, mode), "paths": len(results), "exception_paths": 0, "outcomes": [], "violations": [], "inconclusive": [], "samples": [], "syntactic": 0, "prune_queries": ex.stats["prune_queries"], "validated": 0}
    xt = holder["x"].a[0].t
    left, right, bottom, top = SK.box_terms(mode, holder["bx"])
    if inv:
        left, right, bottom, top = bottom, top, left, right
    rets = []
    tag = "%s/%s/K=%d/box=%s%s%s" % (kind, mode, K, box, "/floors" if cfg.get("floors") else "", "/inverse" if inv else "")

    def record(o, path, relation, extra=None):
        jr["outcomes"].append(o.as_dict())
        if o.status == "unsat" and o.expect == "unsat":
            return
        if o.status == "sat" and o.expect == "sat":
            return
        if o.status == "sat" and o.expect == "unsat":
            leaves = C.leaf_values(R, o.model)
            rep = replay_case({"kind": kind, "K": K, "mode": mode, "relation": relation, "leaves": leaves, "inverse": inv, "floors": bool(cfg.get("floors"))})
            payload = {"property": PROP, "kernel": jr["kernel"], "cfg": cfg, "relation": relation, "leaves": leaves, "path": path.describe() if path else None, "replay_result": rep, "replay_call": {"fn": "harness.C09:replay_case", "args": {"case": {"kind": kind, "K": K, "mode": mode, "relation": relation, "leaves": leaves, "inverse": inv, "floors": bool(cfg.get("floors"))}}}}
            if rep["reproduced"]:
                p = C.write_replay(PROP, "%s_%s_K%d_%s_%s%s" % (kind, mode, K, box, relation, "_inverse" if inv else ""), payload)
                jr["violations"].append({"kernel": jr["kernel"], "relation": relation, "signature": {"K": K, "box": box}, "replay": p, "detail": rep})
            else:
                jr["inconclusive"].append({"query": o.name, "why": "solver model did not reproduce on the real code", "leaves": leaves, "replay": rep})
        else:
            jr["inconclusive"].append({"query": o.name, "status": o.status, "detail": o.detail})

    for i, r in enumerate(results):
        p = r.path
        jr["syntactic"] += sum(1 for n in p.notes if n[0] == "syntactic")
        if r.kind == "notmodelled":
            jr["inconclusive"].append({"path": p.describe(), "notmodelled": str(r.exc)})
            continue
        if r.kind == "raise":
            jr["exception_paths"] += 1
            # C17 decides whether exception paths are legitimate; here only domain errors are expected
            if type(r.exc).__name__ != "InputOutsideDomain":
                jr["inconclusive"].append({"path": p.describe(), "unexpected_exception": "%s: %s" % (type(r.exc).__name__, r.exc)})
            continue
        out, lad = r.value
        y = out.a[0]
        l = lad.a[0]
        cond = p.condition()
        rets.append((i, p, y, l))
        pname = "%s/path%d" % (tag, i)
        # side obligations raised by the engine on this path (divisors, log / sqrt arguments)
        for ob in p.obligations:
            o = C.prove(R, solver, "%s/obl:%s" % (pname, ob.kind), ob.cond, [p.condition(ob.n_dec, ob.n_asm)], timeout, kind="obligation")
            record(o, p, "obligation:" + ob.kind)
        # vacuity twin: the path itself is reachable
        record(C.witness(R, solver, pname + "/reach", cond, timeout), p, "reach")
        is_tail = mode == "tails" and (y.t is xt)
        if is_tail:
            ok = y.t is xt and l.t.op == "const" and l.t.args[0] == 0
            jr["outcomes"].append({"name": pname + "/tail-identity", "kind": "goal", "status": "unsat" if ok else "sat", "s": 0.0, "expect": "unsat", "rung": "syntactic"})
            if not ok:
                jr["inconclusive"].append({"query": pname + "/tail-identity", "why": "tail output is not syntactically the input"})
            continue
        dy = (y.d or {}).get(0, tm.ZERO)
        g_mono = tm.gt(dy, tm.ZERO)
        forms = local.localize(R, cond, g_mono, xt, tag="m%d" % i, solver=solver) + [(cond, g_mono)]
        record(C.prove_forms(R, solver, pname + "/mono", forms, timeout), p, "mono")
        g_range = tm.and_(tm.le(bottom, y.t), tm.le(y.t, top))
        forms = local.localize(R, cond, g_range, xt, tag="r%d" % i, solver=solver)[2:] + [(cond, g_range)]
        o = C.prove_forms(R, solver, pname + "/range", forms, timeout)
        if o.status in ("unknown", "timeout"):
            # the range is a corollary of mono + cont + ends (intermediate value theorem); an undecided direct
            # query is recorded but does not make the check inconclusive
            jr["outcomes"].append(dict(o.as_dict(), status="undecided-corollary"))
            jr.setdefault("notes", []).append("range query undecided on %s (corollary of mono+cont+ends)" % pname)
        else:
            record(o, p, "range")
        record(C.prove(R, solver, pname + "/end-left", tm.implies(tm.eq(xt, left), tm.eq(y.t, bottom)), [cond], timeout), p, "end-left")
        record(C.prove(R, solver, pname + "/end-right", tm.implies(tm.eq(xt, right), tm.eq(y.t, top)), [cond], timeout), p, "end-right")
        if len(jr["samples"]) < 2:
            jr["samples"].append({"query": pname + "/mono", "path": p.describe(), "goal": "dy/dx > 0", "dy_dx_term_size": tm.size(dy)})
    # a false goal must be refutable (guards against an unsatisfiable assumption set)
    twin_ok = None
    for i, p, y, l in rets:
        if y.t is xt:
            continue
        o = C.witness(R, solver, "%s/path%d/twin-false-goal" % (tag, i), p.condition() + [tm.lt(y.t, tm.add(bottom, tm.scale(tm.read_float(0.5), tm.sub(top, bottom))))], min(timeout, 20))
        twin_ok = twin_ok or o.status == "sat"
        if o.status == "sat":
            record(o, p, "twin")
            break
    if twin_ok is False:
        jr["inconclusive"].append({"query": tag + "/twin-false-goal", "why": "no path refutes the deliberately false goal y < mid-box"})
    # continuity across every pair of paths
    for a in range(len(rets)):
        for b in range(a + 1, len(rets)):
            ia, pa, ya, _ = rets[a]
            ib, pb, yb, _ = rets[b]
            ca = [closure(c) for c in pa.condition()]
            cb = [closure(c) for c in pb.condition()]
            name = "%s/cont(%d,%d)" % (tag, ia, ib)
            o = C.prove(R, solver, name, tm.eq(ya.t, yb.t), [ca + cb], timeout)
            record(o, pa, "cont")
    # the end-points are covered by some returning path
    for nm, pt, val in (("left", left, bottom), ("right", right, top)):
        conds = [tm.and_(*p.condition()) for _, p, _, _ in rets]
        o = C.witness(R, solver, "%s/endpoint-%s-reached" % (tag, nm), [tm.eq(xt, pt), tm.or_(*conds)] if conds else [tm.FALSE], timeout)
        record(o, None, "endpoint-reached")
    # differential validation of the encoding
    rng = random.Random(C.SEED * 7919 + hash(tag) % 1000)
    nval = 0
    for _ in range(cfg.get("nval", 8)):
        lv = SK.random_leaves(kind, K, mode, rng, box=(box != "unit"))
        if box == "square" and "w" in lv:
            lv["h"] = lv["w"]
        if inv and mode == "box":
            lo_, hi_ = (lv["bottom"], lv["bottom"] + lv["h"]) if "bottom" in lv else (0.0, 1.0)
            lv["x_0"] = rng.uniform(lo_, hi_)
        env, funcs = C.shortcut_env(R, lv)
        hit = None
        for i, p, y, l in rets:
            if C.path_holds(p, env, funcs):
                hit = (i, p, y, l)
                break
        if hit is None:
            continue
        i, p, y, l = hit
        xr, pr, bxr = SK.real_args(kind, K, mode, lv)
        yr, lr, gr = SK.autograd_derivative(kind, mode, xr, pr, bxr, inv)
        ys = tm.evaluate(y.t, env, funcs)
        ds = tm.evaluate((y.d or {}).get(0, tm.ZERO), env, funcs)
        if abs(ys - float(yr[0])) > 1e-6 * max(1, abs(ys)) or abs(ds - float(gr[0])) > 1e-6 * max(1, abs(ds)):
            jr["inconclusive"].append({"validation_mismatch": tag, "leaves": lv, "sym": [ys, ds], "real": [float(yr[0]), float(gr[0])]})
        else:
            nval += 1
    jr["validated"] = nval
    solver.close()
    return jr


def replay_case(case):
    """Pure real-torch replay: evaluates the violated relation on the real function (float64)."""
    kind, K, mode, rel, lv = case["kind"], case["K"], case["mode"], case["relation"], case["leaves"]
    x, params, bx = SK.real_args(kind, K, mode, lv)
    res = {"reproduced": False}
    inv = bool(case.get("inverse"))
    if "floors" in case:
        SK.USE_FLOORS[0] = bool(case["floors"])
    try:
        left, right = (bx.get("left", 0.0), bx.get("right", 1.0)) if mode == "box" else (-bx["tail_bound"], bx["tail_bound"])
        bottom, top = (bx.get("bottom", 0.0), bx.get("top", 1.0)) if mode == "box" else (left, right)
        if inv:
            left, right, bottom, top = bottom, top, left, right
        if rel in ("end-left", "end-right"):
            x = torch.tensor([left if rel == "end-left" else right], dtype=torch.float64)
        y, lad, g = SK.autograd_derivative(kind, mode, x, params, bx, inv)
        yv, gv = float(y[0]), float(g[0])
        res.update({"x": float(x[0]), "y": yv, "dy_dx": gv, "box": [left, right, bottom, top]})
        tol = 1e-9 * max(1.0, abs(top - bottom))
        if rel == "mono":
            res["reproduced"] = not (gv > 0)
        elif rel == "range":
            res["reproduced"] = yv < bottom - tol or yv > top + tol
        elif rel == "end-left":
            res["reproduced"] = abs(yv - bottom) > tol
        elif rel == "end-right":
            res["reproduced"] = abs(yv - top) > tol
        elif rel == "cont":
            eps = 1e-9 * max(1.0, abs(float(x[0])))
            y1, _, _ = SK.autograd_derivative(kind, mode, x - eps, params, bx, inv)
            y2, _, _ = SK.autograd_derivative(kind, mode, x + eps, params, bx, inv)
            res["neighbours"] = [float(y1[0]), float(y2[0])]
            res["reproduced"] = abs(float(y1[0]) - float(y2[0])) > 1e-5 * max(1.0, abs(top - bottom))
        elif rel.startswith("obligation"):
            res["reproduced"] = not (math.isfinite(yv) and math.isfinite(float(lad[0])))
    except Exception as e:  # noqa
        res["exception"] = "%s: %s" % (type(e).__name__, e)
        res["reproduced"] = rel.startswith("obligation") and type(e).__name__ != "InputOutsideDomain"
    return res


import math  # noqa: E402


def configs(tier):
    Ks = (1, 2) if tier == "quick" else (1, 2, 3)
    cfgs = []
    for kind in SK.KINDS:
        for K in Ks:
            for mode, box in (("box", "sym"), ("tails", "sym")):
                if kind == "quadratic" and mode == "tails" and K == 1:
                    continue
                cfgs.append({"kind": kind, "K": K, "mode": mode, "box": box, "timeout": 60 if tier == "quick" else (600 if K < 3 else 300), "nval": 8, "bughunt": K == 3 and kind != "linear"})
    # non-default and mutually different floors (min_bin_width != min_bin_height != min_derivative)
    for kind in ("rq", "quadratic", "cubic"):
        cfgs.append({"kind": kind, "K": 2, "mode": "box", "box": "unit", "floors": True, "timeout": 60 if tier == "quick" else 600, "nval": 8})
    # the inverse=True evaluation as a map of the output interval onto the input interval: decided for the linear
    # family (the others' inverse formulas - nested square roots - stay undecided within the caps; their inverse
    # direction is covered through the round trip of C02 and the forward bijection here)
    for K in Ks:
        for mode, box in (("box", "sym"), ("tails", "sym")):
            cfgs.append({"kind": "linear", "K": K, "mode": mode, "box": box, "inverse": True, "timeout": 60 if tier == "quick" else 600, "nval": 8})
    return cfgs


def main(argv=None):
    rep = C.Report(PROP)
    cfgs = configs(C.TIER)
    rep.functions = C.source_hash(SK.ENCODED)
    rep.bounds = {"families": list(SK.KINDS), "num_bins": sorted({c["K"] for c in cfgs}), "batch": "1 row x 1 feature", "box": "symbolic left, width>0, bottom, height>0; symbolic tail bound B>0", "arithmetic": "exact reals (QF_NRA)", "per_query_timeout_s": cfgs[0]["timeout"]}
    rep.assumptions = [
        "real arithmetic, not floating point: rounding, overflow and softmax underflow are outside the claim",
        "softmax / softplus outputs of the unnormalised parameters are modelled as arbitrary points of the open simplex / positive reals (exact: each parameter occurs only under that activation)",
        "float literals are read as the simplest rational that rounds to them (1e-3 == 1/1000)",
        "global strict monotonicity follows from per-piece positivity + continuity by the mean value theorem (not queried)",
        "bin counts above the bound are outside the claim",
    ]
    rep.stubs = ["torch.linspace -> exact rationals", "torch.as_tensor passes symbolic tensors through"]
    for jr in C.run_jobs(job, cfgs):
        rep.add_job(jr)
    code = rep.finish("bounded symbolic verification: the real spline functions are executed on symbolic tensors; per path the monotonicity, range, end-point and pairwise continuity goals are decided by z3 (QF_NRA, nlsat)")
    sys.exit(code)


if __name__ == "__main__":
    main()
