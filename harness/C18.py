"""C18 - the distribution interface keeps its documented shape and argument contract.

The real `Distribution.sample / sample_and_log_prob / log_prob` and `Flow._sample / sample_and_log_prob` run with
symbolic contents: `torch.randn` is a stub returning fresh symbols, the context rows are symbols, the flow's
transform is a library affine transform with symbolic parameters.  Sample counts, batch sizes and row counts are
enumerated exhaustively within the bound (they are Python ints).  Because every noise draw is a distinct symbol
and every context row has its own symbols, the *pairing* claims are decided on terms:

  shapes        sample(n) -> [n, ...]; sample(n, context[k]) -> [k, n, ...]; log_prob(x[N]) -> [N]; matching shapes
                of sample_and_log_prob
  pairing       sample[i, j] mentions context row i only and exactly one noise draw; all draws are distinct
  batching      batched generation (any batch_size, dividing n or not) gives the same shape and the same structure
  errors        ValueError iff row counts of inputs and context differ; TypeError iff the sample count / batch size
                is not a positive int
"""
import itertools
import sys

import numpy as np
import torch
from torch import nn

from harness import common as C
from harness import C01
from harness import transformkit as TK
from symtorch import term as tm, scalars as sc, smt, explore, stubs
from symtorch.scalars import S
from symtorch.tensor import Sym, _obj

from nflows.distributions import base as DB
from nflows.distributions import normal as DN
from nflows.distributions import discrete as DD
from nflows.flows import base as FB
from nflows.transforms import standard as ST
from nflows.distributions import mixture as DM
from nflows.nn.nde import made as made_n

PROP = "C18"


def make(kind):
    """(distribution, needs_context, context_width, event_shape)"""
    if kind == "StandardNormal":
        return DN.StandardNormal([2]), False, 3, (2,)
    if kind == "StandardNormal[2,1]":
        return DN.StandardNormal([2, 1]), False, 3, (2, 1)
    if kind == "ConditionalDiagonalNormal":
        return DN.ConditionalDiagonalNormal([2]), True, 4, (2,)
    if kind == "ConditionalIndependentBernoulli":
        return DD.ConditionalIndependentBernoulli([2]), True, 2, (2,)
    if kind in ("Flow", "Flow+embedding", "Flow+conditional-base"):
        t = ST.PointwiseAffineTransform(shift=0.5, scale=2.0)
        t._buffers["_shift"] = stubs.scalar("fb")
        t._buffers["_scale"] = stubs.scalar("fa", lo=0)
        if kind == "Flow+conditional-base":
            return FB.Flow(t, DN.ConditionalDiagonalNormal([2])), True, 4, (2,)
        emb = None
        if kind == "Flow+embedding":
            emb = stubs.UFNet("emb", lambda in_shape: (3,))
        return FB.Flow(t, DN.StandardNormal([2]), embedding_net=emb), False, 3, (2,)
    if kind in ("MADEMoG", "MADEMoG+context"):
        cf = 3 if kind.endswith("context") else None
        torch.manual_seed(0)
        d = DM.MADEMoG(features=2, hidden_features=4, context_features=cf, num_blocks=1, num_mixture_components=1)
        # the autoregressive network is a row-wise uninterpreted function of (inputs, context) here (its structure is C06's subject)
        d._made.forward = stubs.UFNet("made", lambda in_shape: (2 * 1 * 3,))
        return d, cf is not None, 3, (2,)
    raise ValueError(kind)


class _OneComponent:
    """torch.distributions.Categorical over a single mixture component: every draw is component 0."""

    def __init__(self, logits=None, probs=None):
        self.n = (logits if logits is not None else probs).shape[0]

    def sample(self, shape=()):
        return torch.zeros(tuple(shape) + (self.n,), dtype=torch.long)


class _FakeDistributions:
    Categorical = _OneComponent


def mog_patches():
    real_zeros = torch.zeros

    def zeros(*size, **kw):
        if len(size) == 2 and all(isinstance(v, int) for v in size) and "dtype" not in kw:
            return Sym(_obj(np.zeros(size)))
        return real_zeros(*size, **kw)

    return stubs.patched((torch, "zeros", zeros), (made_n, "distributions", _FakeDistributions))


def vars_of(arr, prefix):
    return {v.args[0] for s in np.asarray(arr, dtype=object).reshape(-1) for v in tm.free_vars(s.t) if v.args[0].startswith(prefix)}


def structure_ok(samples, rows, n, event, ctx_used, max_draws=1):
    """sample[i, j] mentions only context row i, exactly one noise draw (one per feature for the autoregressive
    sampler), all draws distinct."""
    seen = set()
    for i in range(rows):
        for j in range(n):
            elem = samples.a[i, j] if rows is not None and samples.a.ndim == len(event) + 2 else samples.a[j]
            noise = vars_of(elem, "randn") | vars_of(elem, "rand")
            draws = {v.rsplit("_", len(event))[0] if False else _draw_id(v, len(event)) for v in noise}
            if not (1 <= len(draws) <= max_draws):
                return "sample[%d,%d] uses %d noise draws" % (i, j, len(draws))
            for d in draws:
                if d in seen:
                    return "noise draw %s used twice" % (d,)
                seen.add(d)
            if ctx_used:
                cv = vars_of(elem, "ctx_")
                rows_used = {int(v.split("_")[1]) for v in cv}
                if rows_used - {i}:
                    return "sample[%d,%d] depends on context rows %s" % (i, j, sorted(rows_used))
                if not rows_used:
                    return "sample[%d,%d] does not depend on its context row" % (i, j)
    return None


def _draw_id(varname, event_dims):
    # names look like randn3_<row>_<e1>..: the draw is (call, row)
    parts = varname.split("_")
    return (parts[0], parts[1]) if len(parts) > 1 else (parts[0], "")


def job(cfg):
    kind = cfg["kind"]
    R = sc.new_registry()
    jr = C01.new_jr("Distribution.sample/" + kind)
    maxn, maxrows = cfg["maxn"], cfg["maxrows"]
    n_checks = 0

    def note(name, err):
        nonlocal n_checks
        n_checks += 1
        jr["outcomes"].append({"name": name, "kind": "goal", "status": "unsat" if err is None else "sat", "s": 0.0, "expect": "unsat", "detail": err or ""})
        return err is None

    def fail(relation, sig, call, err):
        rep = replay(**call)
        payload = {"property": PROP, "kernel": jr["kernel"], "relation": relation, "signature": sig, "error": err, "replay_result": rep, "replay_call": {"fn": "harness.C18:replay", "args": call}}
        if rep.get("reproduced"):
            fn = "".join(ch if ch.isalnum() else "_" for ch in "%s_%s" % (kind, relation))[:100]
            jr["violations"].append({"kernel": "Distribution.sample", "relation": relation, "signature": sig, "replay": C.write_replay(PROP, fn, payload), "detail": rep})
        else:
            jr["inconclusive"].append({"query": kind + "/" + relation, "why": "not reproduced on real tensors", "error": err, "replay": rep})

    sc.BOOL_TO_NUM[0] = "ite"
    import contextlib

    with stubs.torch_patches(), (mog_patches() if kind.startswith("MADEMoG") else contextlib.nullcontext()):
        R.begin_run()
        dist, needs_ctx, cw, event = make(kind)
        dist.eval()
        is_flow = kind.startswith("Flow")
        only_unconditional = kind == "MADEMoG"  # built without context features: a context is a caller error
        for rows in ([None] if needs_ctx is False and not is_flow else []) + ([] if only_unconditional else list(range(1, maxrows + 1))) + ([None] if is_flow and not needs_ctx and kind != "Flow+embedding" else []):
            if rows is None and needs_ctx:
                continue
            ctx = stubs.named_tensor("ctx", (rows, cw)) if rows is not None else None
            ctx_matters = rows is not None and (needs_ctx or kind == "Flow+embedding" and False)
            for n in range(1, maxn + 1):
                tag = "%s/rows=%s/n=%d" % (kind, rows, n)
                try:
                    s0 = dist.sample(n, context=ctx)
                except Exception as e:  # noqa
                    err = "raised %s: %s" % (type(e).__name__, e)
                    if not note(tag + "/sample", err) and not any(v["relation"] == "sample-raises" for v in jr["violations"]):
                        fail("sample-raises", {"context": rows is not None}, {"kind": kind, "rows": rows, "n": n, "batch_size": None, "what": "shape"}, err)
                    continue
                want = ((rows, n) if rows is not None else (n,)) + tuple(event)
                ok = note(tag + "/sample-shape", None if tuple(s0.shape) == want else "shape %s, documented %s" % (tuple(s0.shape), want))
                if ok and kind != "ConditionalIndependentBernoulli":
                    err = structure_ok(s0 if rows is not None else Sym(s0.a[None]), rows or 1, n, event, ctx_matters, max_draws=2 if kind.startswith("MADEMoG") else 1)
                    if not note(tag + "/sample-pairing", err) and not any(v["relation"] == "sample-pairing" for v in jr["violations"]):
                        fail("sample-pairing", {"context": rows is not None}, {"kind": kind, "rows": rows, "n": n, "batch_size": None, "what": "pairing"}, err)
                for b in range(1, n + 2):
                    try:
                        sb = dist.sample(n, context=ctx, batch_size=b)
                    except Exception as e:  # noqa
                        note(tag + "/batch=%d" % b, "raised %s: %s" % (type(e).__name__, e))
                        continue
                    err = None if tuple(sb.shape) == want else "batched shape %s, documented %s" % (tuple(sb.shape), want)
                    if err is None and kind != "ConditionalIndependentBernoulli":
                        err = structure_ok(sb if rows is not None else Sym(sb.a[None]), rows or 1, n, event, ctx_matters, max_draws=2 if kind.startswith("MADEMoG") else 1)
                    if not note(tag + "/batch_size=%d" % b, err):
                        if not any(v["relation"] == "batched-sample" for v in jr["violations"]):
                            fail("batched-sample", {"context": rows is not None}, {"kind": kind, "rows": rows, "n": n, "batch_size": b, "what": "batched"}, err)
                try:
                    ss, lp = dist.sample_and_log_prob(n, context=ctx)
                    want_lp = (rows, n) if rows is not None else (n,)
                    err = None if (tuple(ss.shape) == want and tuple(lp.shape) == want_lp) else "sample_and_log_prob shapes %s / %s, documented %s / %s" % (tuple(ss.shape), tuple(lp.shape), want, want_lp)
                    note(tag + "/sample_and_log_prob-shapes", err)
                except Exception as e:  # noqa
                    note(tag + "/sample_and_log_prob", "raised %s: %s" % (type(e).__name__, e))
            # log_prob: one value per row, ValueError iff rows differ
            for N in range(1, maxrows + 1):
                x = stubs.named_tensor("inp", (N,) + tuple(event))
                for crows in ([None] if (not needs_ctx and kind != "Flow+embedding") else []) + ([] if only_unconditional else list(range(1, maxrows + 1))):
                    c = stubs.named_tensor("ctx", (crows, cw)) if crows is not None else None
                    tag = "%s/log_prob/N=%d/context_rows=%s" % (kind, N, crows)
                    try:
                        lp = dist.log_prob(x, context=c)
                        if crows is not None and crows != N:
                            err = "no ValueError for %d inputs and %d context rows" % (N, crows)
                            if not note(tag, err) and not any(v["relation"] == "row-count-check" for v in jr["violations"]):
                                fail("row-count-check", {"context": True}, {"kind": kind, "rows": crows, "n": N, "batch_size": None, "what": "rowcheck"}, err)
                        else:
                            note(tag, None if tuple(lp.shape) == (N,) else "log_prob shape %s for %d rows" % (tuple(lp.shape), N))
                    except ValueError as e:
                        note(tag, None if (crows is not None and crows != N) else "ValueError for matching rows: %s" % e)
                    except Exception as e:  # noqa
                        note(tag, "raised %s: %s" % (type(e).__name__, e))
            if rows is not None and not needs_ctx and not is_flow:
                break
        # argument validation
        for bad in (0, -1, 2.5, "3", None):
            for arg in ("num_samples", "batch_size"):
                tag = "%s/TypeError-for-%s=%r" % (kind, arg, bad)
                ctx = stubs.named_tensor("ctx", (1, cw)) if needs_ctx else None
                if arg == "batch_size" and bad is None:
                    continue
                try:
                    if arg == "num_samples":
                        dist.sample(bad, context=ctx)
                    else:
                        dist.sample(2, context=ctx, batch_size=bad)
                    note(tag, "accepted")
                except TypeError:
                    note(tag, None)
                except Exception as e:  # noqa
                    note(tag, "raised %s instead of TypeError" % type(e).__name__)
            # the same sample count through sample_and_log_prob
            tag = "%s/sample_and_log_prob/TypeError-for-num_samples=%r" % (kind, bad)
            needs_c = needs_ctx or kind == "Flow+embedding"  # (an embedding network cannot be applied to None)
            ctx = stubs.named_tensor("ctx", (1, cw)) if needs_c else None
            err = None
            try:
                dist.sample_and_log_prob(bad, context=ctx)
                err = "accepted"
            except TypeError:
                pass
            except NotImplementedError:
                pass  # a distribution without sampling
            except Exception as e:  # noqa
                err = "raised %s instead of TypeError" % type(e).__name__
            if not note(tag, err) and not any(v["relation"] == "sample_and_log_prob-count-validation" for v in jr["violations"]):
                fail("sample_and_log_prob-count-validation", {"context": needs_c}, {"kind": kind, "rows": 1 if needs_c else None, "n": bad if not isinstance(bad, str) else None, "batch_size": None, "what": "count-validation", "bad": repr(bad)}, err)
    sc.BOOL_TO_NUM[0] = "fork"
    jr["paths"] = n_checks
    jr["samples"].append({"distribution": kind, "example": "sample(3, context[2], batch_size=2) -> shape [2,3,2]; sample[i,j] mentions ctx_i_* and one randn draw"})
    bad = [o for o in jr["outcomes"] if o["status"] != "unsat"]
    known_rel = {v["relation"] for v in jr["violations"]}
    for o in bad:
        if "batch_size" in o["name"] and "batched-sample" in known_rel:
            continue
        if not any(i.get("query") == o["name"] for i in jr["inconclusive"]):
            jr["inconclusive"].append({"query": o["name"], "why": o.get("detail")})
    return jr


def replay(kind, rows, n, batch_size, what, bad=None):
    res = {"reproduced": False}
    try:
        torch.manual_seed(0)
        if kind.startswith("Flow"):
            t = ST.PointwiseAffineTransform(shift=0.5, scale=2.0)
            base = DN.ConditionalDiagonalNormal([2]) if kind == "Flow+conditional-base" else DN.StandardNormal([2])
            dist = FB.Flow(t, base, embedding_net=nn.Linear(3, 3) if kind == "Flow+embedding" else None)
            cw = 4 if kind == "Flow+conditional-base" else 3
            event = (2,)
        else:
            dist, _, cw, event = make(kind)
        ctx = torch.randn(rows, cw) if rows is not None else None
        if what == "rowcheck":
            xx = torch.randn((n,) + tuple(event))
            try:
                dist.log_prob(xx, context=ctx)
                res["outcome"] = "accepted %d inputs with %d context rows" % (n, rows)
                res["reproduced"] = True
            except ValueError:
                res["outcome"] = "ValueError"
            except Exception as e:  # noqa
                res["outcome"] = "%s: %s" % (type(e).__name__, e)
            return res
        if what == "count-validation":
            import ast

            count = ast.literal_eval(bad)
            try:
                dist.sample_and_log_prob(count, context=ctx)
                res["outcome"] = "accepted"
                res["reproduced"] = True
            except TypeError:
                res["outcome"] = "TypeError"
            except Exception as e:  # noqa
                res["outcome"] = "%s: %s" % (type(e).__name__, e)
                res["reproduced"] = True
            return res
        if what == "pairing" and rows is not None and cw == 4:
            # conditional Gaussian rows that are narrow and far apart: block i must lie near its own mean
            rows_ = max(rows, 3)
            ctx = torch.zeros(rows_, 4)
            ctx[:, :2] = (torch.arange(rows_, dtype=torch.float32) * 100.0)[:, None]
            ctx[:, 2:] = -3.0
            s = dist.sample(max(n, 4), context=ctx)
            base = ctx[:, None, :2]
            if kind.startswith("Flow"):
                base = (base - 0.5) / 2.0  # the flow's transform is x -> 2x + 0.5, sampling applies its inverse
            dev = float((s - base).abs().max())
            res["max_distance_from_own_row_mean"] = dev
            res["reproduced"] = dev > 10.0
            return res
        s = dist.sample(n, context=ctx, batch_size=batch_size)
        want = ((rows, n) if rows is not None else (n,)) + tuple(event)
        res.update({"shape": list(s.shape), "documented": list(want)})
        res["reproduced"] = tuple(s.shape) != want
    except Exception as e:  # noqa
        res["exception"] = "%s: %s" % (type(e).__name__, e)
        res["reproduced"] = True
    return res


KINDS = ("StandardNormal", "StandardNormal[2,1]", "ConditionalDiagonalNormal", "ConditionalIndependentBernoulli", "Flow", "Flow+embedding", "Flow+conditional-base", "MADEMoG", "MADEMoG+context")


def configs(tier):
    q = tier == "quick"
    return [{"kind": k, "maxn": 4 if q else 8, "maxrows": 2 if q else 4} for k in KINDS]


def main():
    rep = C.Report(PROP)
    cfgs = configs(C.TIER)
    rep.functions = C.source_hash([DB.Distribution.sample, DB.Distribution.sample_and_log_prob, DB.Distribution.log_prob, FB.Flow._sample, FB.Flow.sample_and_log_prob, DN.StandardNormal._sample, DN.ConditionalDiagonalNormal._sample])
    rep.bounds = {"distributions": list(KINDS), "num_samples": "1..%d" % cfgs[0]["maxn"], "batch_size": "1..n+1 (dividing and not dividing)", "context_rows": "none, 1..%d" % cfgs[0]["maxrows"], "argument_errors": "0, -1, 2.5, '3', None"}
    rep.assumptions = ["sizes are Python ints and are enumerated exhaustively within the bound; contents are symbolic (every noise draw a fresh symbol)", "isinstance(x, int) semantics: True counts as 1 (Python), not flagged", "'does not change the distribution' is shown structurally: every sample is one fresh standard-normal draw pushed through the same map with its own context row"]
    rep.stubs = ["torch.randn / torch.rand -> fresh symbols", "embedding net -> uninterpreted function"]
    for jr in C.run_jobs(job, cfgs):
        rep.add_job(jr)
    rep.extra["exhaustive"] = True
    sys.exit(rep.finish("the real sampling / log_prob interface executed on symbolic contents for every (num_samples, batch_size, context rows) within the bound; shapes and draw/context pairing decided on the resulting terms"))


if __name__ == "__main__":
    main()
