"""Symbolic and concrete drivers for the four spline families (shared by C01, C02, C03, C09, C17)."""
import math

import torch

from symtorch import term as tm
from symtorch import scalars as sc
from symtorch import stubs
from symtorch.tensor import Sym

from nflows.transforms.splines import linear as lin_mod
from nflows.transforms.splines import quadratic as quad_mod
from nflows.transforms.splines import cubic as cub_mod
from nflows.transforms.splines import rational_quadratic as rq_mod
from nflows.utils import torchutils

KINDS = ("rq", "quadratic", "linear", "cubic")

FUNCS = {
    ("rq", "box"): rq_mod.rational_quadratic_spline,
    ("rq", "tails"): rq_mod.unconstrained_rational_quadratic_spline,
    ("quadratic", "box"): quad_mod.quadratic_spline,
    ("quadratic", "tails"): quad_mod.unconstrained_quadratic_spline,
    ("linear", "box"): lin_mod.linear_spline,
    ("linear", "tails"): lin_mod.unconstrained_linear_spline,
    ("cubic", "box"): cub_mod.cubic_spline,
    ("cubic", "tails"): cub_mod.unconstrained_cubic_spline,
}

ENCODED = list(FUNCS.values()) + [torchutils.searchsorted, torchutils.cbrt]


def param_shapes(kind, K, mode):
    """name -> trailing size of each unnormalised parameter tensor."""
    if kind == "rq":
        return {"uw": K, "uh": K, "ud": (K - 1) if mode == "tails" else (K + 1)}
    if kind == "quadratic":
        return {"uw": K, "uh": (K - 1) if mode == "tails" else (K + 1)}
    if kind == "linear":
        return {"up": K}
    if kind == "cubic":
        return {"uw": K, "uh": K, "dl": 1, "dr": 1}
    raise ValueError(kind)


def _kw(kind, p):
    if kind == "rq":
        return dict(unnormalized_widths=p["uw"], unnormalized_heights=p["uh"], unnormalized_derivatives=p["ud"])
    if kind == "quadratic":
        return dict(unnormalized_widths=p["uw"], unnormalized_heights=p["uh"])
    if kind == "linear":
        return dict(unnormalized_pdf=p["up"])
    return dict(unnormalized_widths=p["uw"], unnormalized_heights=p["uh"], unnorm_derivatives_left=p["dl"], unnorm_derivatives_right=p["dr"])


def sym_setup(kind, K, mode, box="sym", n=1, xname="x", seed=True):
    """Symbolic arguments.  box: 'unit' (defaults), 'sym' (left, left+w, bottom, bottom+h with w,h>0),
    'square' (w == h).  Returns (x, params dict, box dict of 0-d Sym or python floats)."""
    x = stubs.named_tensor(xname, (n,), seed_base=0 if seed else None)
    params = {nm: stubs.named_tensor(nm, (n, sz), free=True) for nm, sz in param_shapes(kind, K, mode).items()}
    bx = {}
    if mode == "tails":
        if box == "unit":
            bx["tail_bound"] = 1.0
        else:
            bx["tail_bound"] = stubs.scalar("B", lo=0)
    else:
        if box == "unit":
            pass
        else:
            left = stubs.scalar("left")
            w = stubs.scalar("w", lo=0)
            bottom = stubs.scalar("bottom")
            h = w if box == "square" else stubs.scalar("h", lo=0)
            bx = {"left": left, "right": left + w, "bottom": bottom, "top": bottom + h}
    return x, params, bx


FLOORS = {"rq": dict(min_bin_width=0.05, min_bin_height=0.2, min_derivative=0.3), "quadratic": dict(min_bin_width=0.05, min_bin_height=0.2), "cubic": dict(min_bin_width=0.05, min_bin_height=0.2), "linear": {}}
USE_FLOORS = [False]  # a job may switch to non-default (and mutually different) floors


def call(kind, mode, x, params, bx, inverse):
    f = FUNCS[(kind, mode)]
    kw = _kw(kind, params)
    kw.update(bx)
    if USE_FLOORS[0]:
        kw.update(FLOORS[kind])
    if mode == "tails":
        kw["tails"] = "linear"
    return f(inputs=x, inverse=inverse, **kw)


def box_terms(mode, bx):
    """(left, right, bottom, top) as terms."""
    def t(v, default):
        if v is None:
            return tm.const(default)
        if isinstance(v, Sym):
            return v.a.reshape(-1)[0].t
        return tm.const(v)

    if mode == "tails":
        B = t(bx.get("tail_bound"), 1.0)
        return tm.neg(B), B, tm.neg(B), B
    return t(bx.get("left"), 0.0), t(bx.get("right"), 1.0), t(bx.get("bottom"), 0.0), t(bx.get("top"), 1.0)


# ---- concrete side (replay / differential validation) ----------------------------------------------

def real_args(kind, K, mode, leaves, n=1, dtype=torch.float64, xname="x"):
    """Real tensors from leaf values {name: float}; missing leaves default to 0."""
    def g(nm, default=0.0):
        return float(leaves.get(nm, default))

    x = torch.tensor([g("%s_%d" % (xname, i)) for i in range(n)], dtype=dtype)
    params = {}
    for nm, sz in param_shapes(kind, K, mode).items():
        params[nm] = torch.tensor([[g("%s_%d_%d" % (nm, i, j)) for j in range(sz)] for i in range(n)], dtype=dtype)
    bx = {}
    if mode == "tails":
        bx["tail_bound"] = g("B", 1.0)
    else:
        if "left" in leaves or "w" in leaves or "bottom" in leaves or "h" in leaves:
            left, w = g("left", 0.0), g("w", 1.0)
            bottom, h = g("bottom", 0.0), g("h", g("w", 1.0))
            bx = {"left": left, "right": left + w, "bottom": bottom, "top": bottom + h}
    return x, params, bx


def real_call(kind, mode, x, params, bx, inverse):
    f = FUNCS[(kind, mode)]
    kw = _kw(kind, {k: v.clone() for k, v in params.items()})
    kw.update(bx)
    if USE_FLOORS[0]:
        kw.update(FLOORS[kind])
    if mode == "tails":
        kw["tails"] = "linear"
    return f(inputs=x, inverse=inverse, **kw)


def autograd_derivative(kind, mode, x, params, bx, inverse):
    xx = x.clone().requires_grad_(True)
    y, lad = real_call(kind, mode, xx, params, bx, inverse)
    (g,) = torch.autograd.grad(y.sum(), xx)
    return y.detach(), lad.detach(), g.detach()


def random_leaves(kind, K, mode, rng, box=True, inside=True):
    lv = {}
    for nm, sz in param_shapes(kind, K, mode).items():
        for j in range(sz):
            lv["%s_0_%d" % (nm, j)] = rng.uniform(-2, 2)
    if mode == "tails":
        lv["B"] = rng.uniform(0.5, 4.0)
        lo, hi = (-lv["B"], lv["B"]) if inside else (lv["B"], lv["B"] + 2)
    else:
        if box:
            lv["left"] = rng.uniform(-2, 1)
            lv["w"] = rng.uniform(0.5, 3)
            lv["bottom"] = rng.uniform(-2, 1)
            lv["h"] = rng.uniform(0.5, 3)
            lo, hi = lv["left"], lv["left"] + lv["w"]
        else:
            lo, hi = 0.0, 1.0
    lv["x_0"] = rng.uniform(lo, hi)
    return lv
