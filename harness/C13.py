"""C13 - evaluation is free of side effects on arguments and on the model.

For every catalogued transform, the base distributions and a flow, the real `forward`, `inverse`, `log_prob`,
`sample` and `transform_to_noise` run on symbolic tensors, on every feasible path:

   arguments   the caller's input and context tensors hold exactly the same terms afterwards, also when the input is
               a *view* into a larger tensor (the rest of that tensor must be untouched too); the engine's write log
               names every in-place operation that landed on a caller-owned array
   model       in evaluation mode every parameter and buffer holds the same terms afterwards, and a second identical
               call returns identical terms
   training    in training mode the only state that changes is BatchNorm.running_mean / running_var and
               ActNorm.log_scale / shift / initialized

(Helper functions of nflows.utils are covered by C20.)
"""
import sys

import numpy as np
import torch

from harness import common as C
from harness import cases as CS
from harness import C01
from harness import transformkit as TK
from symtorch import term as tm, scalars as sc, smt, explore, stubs
from symtorch.scalars import S
from symtorch.tensor import Sym, _obj, _root

from nflows.distributions import normal as DN
from nflows.flows import base as FB
from nflows.transforms import standard as ST
from nflows.transforms import normalization as NM

PROP = "C13"

ALLOWED_TRAINING_STATE = {"BatchNorm": ("running_mean", "running_var"), "ActNorm": ("log_scale", "shift", "initialized")}


def snapshot(module):
    snap = {}
    for mn, m in module.named_modules():
        for pn, p in m._parameters.items():
            if isinstance(p, Sym):
                snap[(mn, pn)] = [s.t for s in p.a.reshape(-1)]
        for bn, b in m._buffers.items():
            if isinstance(b, Sym):
                snap[(mn, bn)] = [s.t for s in b.a.reshape(-1)]
            elif isinstance(b, torch.Tensor):
                snap[(mn, bn)] = b.detach().clone()
    return snap


def changed(module, snap):
    out = []
    for mn, m in module.named_modules():
        for pn, p in list(m._parameters.items()) + list(m._buffers.items()):
            key = (mn, pn)
            if key not in snap:
                continue
            old = snap[key]
            if isinstance(p, Sym):
                new = [s.t for s in p.a.reshape(-1)]
                if not isinstance(old, list) or len(new) != len(old) or any(a is not b for a, b in zip(new, old)):
                    out.append((type(m).__name__, pn))
            elif isinstance(p, torch.Tensor):
                if isinstance(old, list) or not torch.equal(p.detach(), old):
                    out.append((type(m).__name__, pn))
    return out


def job_case(cfg):
    case = CS.by_name(cfg["case"])
    direction, training = cfg["direction"], cfg["training"]
    R = sc.new_registry()
    solver = smt.Z3Proc()
    jr = C01.new_jr(case.name)
    name = "%s/%s/%s" % (case.name, direction, "training" if training else "eval")

    def fn():
        nrows = 2 if "uninitialised" in case.name else 1  # (a data-dependent initialisation needs two rows to be computable)
        m, params, x, ctx, asm = case.build_symbolic(n=nrows, seed=False)
        if training:
            torch.nn.Module.train(m, True)
        for a in asm:
            explore.assume(a)
        # the caller's input is a view into a larger tensor it owns
        pad = stubs.named_tensor("own", (nrows + 2,) + tuple(x.a.shape[1:]))
        pad.a[1:1 + nrows] = x.a
        view = pad[1:1 + nrows]
        before_in = [s.t for s in pad.a.reshape(-1)]
        before_ctx = [s.t for s in ctx.a.reshape(-1)] if ctx is not None else None
        snap = snapshot(m)
        p = explore.current().path
        n_writes = len(p.writes)
        owned = {id(_root(pad.a))} | ({id(_root(ctx.a))} if ctx is not None else set())
        with stubs.torch_patches():
            f = m if direction == "forward" else m.inverse
            r1 = f(view, ctx) if ctx is not None else f(view)
            writes_on_args = [w for w in p.writes[n_writes:] if w[1] in owned]
            after_in = [s.t for s in pad.a.reshape(-1)]
            after_ctx = [s.t for s in ctx.a.reshape(-1)] if ctx is not None else None
            ch = changed(m, snap)
            r2 = None
            if not training:
                r2 = f(view, ctx) if ctx is not None else f(view)
        return dict(before_in=before_in, after_in=after_in, before_ctx=before_ctx, after_ctx=after_ctx, changed=ch, r1=r1, r2=r2, writes=writes_on_args)

    ex = explore.Explorer(R, solver, decide_timeout=8.0, max_paths=300)
    results = ex.explore(fn)
    jr["paths"] = len(results)
    jr["prune_queries"] = ex.stats["prune_queries"]
    n_ret = 0
    for i, r in enumerate(results):
        if r.kind == "notmodelled":
            jr["inconclusive"].append({"path": r.path.describe()[:4], "notmodelled": str(r.exc)})
            continue
        if r.kind == "raise":
            jr["exception_paths"] += 1
            continue
        n_ret += 1
        v = r.value
        errs = []
        if any(a is not b for a, b in zip(v["before_in"], v["after_in"])) or v["writes"]:
            errs.append(("argument-unmodified", "the caller's input tensor (or the tensor it is a view of) was modified: %s" % (v["writes"][:2],)))
        if v["before_ctx"] is not None and any(a is not b for a, b in zip(v["before_ctx"], v["after_ctx"])):
            errs.append(("context-unmodified", "the caller's context tensor was modified"))
        ch = v["changed"]
        if not training and ch:
            errs.append(("model-unchanged-in-eval", "evaluation-mode call changed %s" % ch))
        if training:
            extra = [c for c in ch if c[1] not in ALLOWED_TRAINING_STATE.get(c[0], ())]
            if extra:
                errs.append(("only-documented-statistics-change-in-training", "training-mode call changed %s" % extra))
        if v["r2"] is not None:
            same = all(a.t is b.t for a, b in zip(v["r1"][0].a.reshape(-1), v["r2"][0].a.reshape(-1))) and all(a.t is b.t for a, b in zip(v["r1"][1].a.reshape(-1), v["r2"][1].a.reshape(-1)))
            if not same:
                errs.append(("repeatable", "a second identical call returned different terms"))
        jr["outcomes"].append({"name": "%s/path%d/no-side-effects" % (name, i), "kind": "goal", "status": "unsat" if not errs else "sat", "s": 0.0, "expect": "unsat", "detail": "; ".join(e[1] for e in errs)})
        for rel, err in errs:
            report(jr, case.name, direction, training, rel, err)
    if n_ret == 0:
        jr["inconclusive"].append({"query": name, "why": "no returning path"})
    jr["samples"].append({"case": name, "paths": len(results)})
    solver.close()
    return jr


def report(jr, case_name, direction, training, relation, err):
    if any(v["relation"] == relation for v in jr["violations"]):
        return
    with stubs.real_torch():
        rep = replay(case_name, direction, training)
    sig = {"case": case_name.split("/")[0], "relation": relation}
    payload = {"property": PROP, "kernel": case_name, "relation": relation, "signature": sig, "error": err, "replay_result": rep, "replay_call": {"fn": "harness.C13:replay", "args": {"case_name": case_name, "direction": direction, "training": training}}}
    if rep.get("reproduced"):
        fn = "".join(ch if ch.isalnum() else "_" for ch in "%s_%s_%s" % (case_name, direction, relation))[:100]
        jr["violations"].append({"kernel": case_name, "relation": relation, "signature": sig, "replay": C.write_replay(PROP, fn, payload), "detail": rep})
    else:
        jr["inconclusive"].append({"query": "%s/%s/%s" % (case_name, direction, relation), "why": "not reproduced on real tensors", "error": err, "replay": rep})


def replay(case_name, direction, training, seed=0, variant=None):
    if variant is None:
        for v in ("interior", "boundary"):
            res = replay(case_name, direction, training, seed, v)
            if res.get("reproduced"):
                return res
        return res
    res = {"reproduced": False, "inputs": variant}
    try:
        case = CS.by_name(case_name)
        torch.manual_seed(seed)
        nrows = 2 if "uninitialised" in case_name else 1
        m, x, ctx = case.build_real({}, n=nrows)
        if any(isinstance(mod, (stubs.UFNet, TK.ARStub)) for mod in m.modules()):
            C01._concretise_stubs(m)
        m.train(training)
        big = torch.rand((nrows + 2,) + tuple(x.shape[1:]), dtype=x.dtype) * 0.8 + 0.1
        if variant == "boundary":
            # values exactly on the ends of the unit interval (0.0 / 1.0 pixels): clamping paths are taken
            flat = big.reshape(nrows + 2, -1)
            flat[:, 0::2] = 0.0
            flat[:, 1::2] = 1.0
        view = big[1:1 + nrows]
        before = big.clone()
        cb = ctx.clone() if ctx is not None else None
        sd = {k: v.clone() for k, v in m.state_dict().items()}
        f = m if direction == "forward" else m.inverse
        with torch.no_grad():
            r1 = f(view, ctx) if ctx is not None else f(view)
            changed_keys = [k for k, v in m.state_dict().items() if not torch.equal(v, sd[k])]
            r2 = (f(view, ctx) if ctx is not None else f(view)) if not training else r1
        res["input_changed"] = not torch.equal(big, before)
        res["context_changed"] = ctx is not None and not torch.equal(ctx, cb)
        res["state_changed"] = changed_keys
        res["repeat_differs"] = not (torch.equal(r1[0], r2[0]) and torch.equal(r1[1], r2[1]))
        allowed = ("running_mean", "running_var", "log_scale", "shift", "initialized")
        bad_state = [k for k in changed_keys if not (training and k.split(".")[-1] in allowed)]
        res["reproduced"] = bool(res["input_changed"] or res["context_changed"] or bad_state or res["repeat_differs"])
    except Exception as e:  # noqa
        res["exception"] = "%s: %s" % (type(e).__name__, e)
    return res


def job_dist(cfg):
    """distributions and flows: log_prob / sample / transform_to_noise leave inputs, context and the model alone."""
    R = sc.new_registry()
    jr = C01.new_jr("distributions/flows")
    with stubs.torch_patches():
        R.begin_run()
        x = stubs.named_tensor("x", (2, 2))
        ctx = stubs.named_tensor("ctx", (2, 4))
        t = ST.PointwiseAffineTransform(shift=0.5, scale=2.0)
        t._buffers["_shift"] = stubs.scalar("fb")
        t._buffers["_scale"] = stubs.scalar("fa", lo=0)
        flow_c = FB.Flow(t, DN.ConditionalDiagonalNormal([2]))
        flow_u = FB.Flow(t, DN.StandardNormal([2]))
        items = [
            ("StandardNormal.log_prob", DN.StandardNormal([2]), lambda d: d.log_prob(x)),
            ("ConditionalDiagonalNormal.log_prob", DN.ConditionalDiagonalNormal([2]), lambda d: d.log_prob(x, context=ctx)),
            ("ConditionalDiagonalNormal.sample", DN.ConditionalDiagonalNormal([2]), lambda d: d.sample(2, context=ctx)),
            ("ConditionalDiagonalNormal.sample(n=1)", DN.ConditionalDiagonalNormal([2]), lambda d: d.sample(1, context=ctx)),
            ("Flow.log_prob", flow_c, lambda d: d.log_prob(x, context=ctx)),
            ("Flow.sample", flow_c, lambda d: d.sample(2, context=ctx)),
            ("Flow.sample_and_log_prob", flow_c, lambda d: d.sample_and_log_prob(2, context=ctx)),
            ("Flow.transform_to_noise", flow_u, lambda d: d.transform_to_noise(x)),
        ]
        for nm, d, f in items:
            d.eval()
            bx, bc = [s.t for s in x.a.reshape(-1)], [s.t for s in ctx.a.reshape(-1)]
            snap = snapshot(d)
            f(d)
            err = None
            if any(a is not b.t for a, b in zip(bx, x.a.reshape(-1))):
                err = "inputs modified"
            if any(a is not b.t for a, b in zip(bc, ctx.a.reshape(-1))):
                err = "context modified"
            ch = changed(d, snap)
            if ch:
                err = "model state changed: %s" % ch
            jr["outcomes"].append({"name": nm + "/no-side-effects", "kind": "goal", "status": "unsat" if err is None else "sat", "s": 0.0, "expect": "unsat", "detail": err or ""})
            if err:
                with stubs.real_torch():
                    rep = replay_dist(nm)
                sig = {"case": nm, "relation": "no-side-effects"}
                payload = {"property": PROP, "kernel": nm, "relation": "no-side-effects", "signature": sig, "error": err, "replay_result": rep, "replay_call": {"fn": "harness.C13:replay_dist", "args": {"name": nm}}}
                if rep.get("reproduced"):
                    jr["violations"].append({"kernel": nm, "relation": "no-side-effects", "signature": sig, "replay": C.write_replay(PROP, "".join(ch if ch.isalnum() else "_" for ch in nm), payload), "detail": rep})
                else:
                    jr["inconclusive"].append({"query": nm, "why": err, "replay": rep})
    jr["paths"] = len(items)
    jr["samples"].append({"calls": [i[0] for i in items]})
    return jr


def replay_dist(name):
    """real tensors, float32 and float64 inputs: inputs, context, every parameter and every buffer (persistent or not,
    value and dtype) are unchanged by an evaluation-mode call, and repeating the first call gives the same numbers."""
    res = {"reproduced": False}
    try:
        torch.manual_seed(0)
        t = ST.PointwiseAffineTransform(shift=0.5, scale=2.0)
        mk = {
            "StandardNormal.log_prob": (lambda: DN.StandardNormal([2]), lambda d, x, c: d.log_prob(x)),
            "ConditionalDiagonalNormal.log_prob": (lambda: DN.ConditionalDiagonalNormal([2]), lambda d, x, c: d.log_prob(x, context=c)),
            "ConditionalDiagonalNormal.sample": (lambda: DN.ConditionalDiagonalNormal([2]), lambda d, x, c: d.sample(2, context=c)),
            "ConditionalDiagonalNormal.sample(n=1)": (lambda: DN.ConditionalDiagonalNormal([2]), lambda d, x, c: d.sample(1, context=c)),
            "Flow.log_prob": (lambda: FB.Flow(t, DN.ConditionalDiagonalNormal([2])), lambda d, x, c: d.log_prob(x, context=c)),
            "Flow.sample": (lambda: FB.Flow(t, DN.ConditionalDiagonalNormal([2])), lambda d, x, c: d.sample(2, context=c)),
            "Flow.sample_and_log_prob": (lambda: FB.Flow(t, DN.ConditionalDiagonalNormal([2])), lambda d, x, c: d.sample_and_log_prob(2, context=c)),
            "Flow.transform_to_noise": (lambda: FB.Flow(t, DN.StandardNormal([2])), lambda d, x, c: d.transform_to_noise(x)),
        }
        fac, call = mk[name]
        d = fac().eval()

        def state():
            out = {}
            for k, v in list(d.named_parameters()) + list(d.named_buffers()):
                out[k] = (v.dtype, v.detach().clone())
            return out

        problems = []
        x64, c64 = torch.randn(3, 2, dtype=torch.float64), torch.randn(3, 4, dtype=torch.float64)
        first = None
        with torch.no_grad():
            for x, c in ((x64, c64), (x64.float(), c64.float()), (x64, c64)):
                bx, bc, st = x.clone(), c.clone(), state()
                try:
                    r = call(d, x, c)
                except Exception as e:  # noqa  (a dtype combination the class does not support is not a side effect)
                    res.setdefault("skipped", []).append("%s inputs: %s" % (x.dtype, type(e).__name__))
                    continue
                if not torch.equal(x, bx):
                    problems.append("inputs modified (%s)" % x.dtype)
                if not torch.equal(c, bc):
                    problems.append("context modified (%s)" % x.dtype)
                after = state()
                for k in st:
                    if k not in after or after[k][0] != st[k][0] or not torch.equal(after[k][1], st[k][1]):
                        problems.append("state %s changed by a %s call" % (k, x.dtype))
                if "sample" not in name and x.dtype == torch.float64:
                    r0 = r[0] if isinstance(r, tuple) else r
                    if first is None:
                        first = r0.clone()
                    elif not torch.equal(first, r0):
                        problems.append("the same float64 call returns different numbers after a float32 call")
        res["problems"] = problems
        res["reproduced"] = bool(problems)
    except Exception as e:  # noqa
        res["exception"] = "%s: %s" % (type(e).__name__, e)
    return res


def job(cfg):
    return job_case(cfg) if cfg["type"] == "case" else job_dist(cfg)


def configs(tier):
    cfgs = []
    for c in CS.cases_for(tier):
        heavy = "Piecewise" in c.name or "CompositeCDF" in c.name
        if heavy and tier == "quick" and not ("K=1" in c.name or "Coupling/K=2" in c.name):
            continue
        for direction in ("forward", "inverse"):
            if direction == "inverse" and ("PiecewiseCubic" in c.name or c.name.startswith("SqueezeTransform") or ("PiecewiseQuadratic" in c.name and tier == "quick")):
                continue
            cfgs.append({"type": "case", "case": c.name, "direction": direction, "training": False})
    for nm in ("ActNorm/2d", "ActNorm/image", "LULinear/D=2,cache", "AffineCoupling/D=2", "MaskedAffineAutoregressive/D=2", "PiecewiseRationalQuadraticCDF/K=1,tails=linear"):
        cfgs.append({"type": "case", "case": nm, "direction": "forward", "training": True})
    cfgs.append({"type": "dist"})
    return cfgs


def main():
    rep = C.Report(PROP)
    cfgs = configs(C.TIER)
    rep.functions = C.source_hash([NM.BatchNorm, NM.ActNorm, FB.Flow])
    rep.bounds = {"cases": sorted({c["case"] for c in cfgs if c["type"] == "case"}), "modes": ["eval (all cases, both directions)", "training (normalisation layers, cached linear, coupling, autoregressive, spline CDF)"], "inputs": "a one-row view into a three-row tensor owned by the caller; context tensor"}
    rep.assumptions = ["in-place writes are tracked through NumPy view aliasing, which mirrors torch's view semantics for slices / reshape / transpose / expand", "requires_grad leaves (where torch itself raises on in-place writes) are not modelled", "BatchNorm in training mode needs >= 2 rows and is exercised by C14; here its eval mode and the ActNorm training mode are covered", "UMNN outside"]
    rep.stubs = ["UFNet / ARStub conditioners"]
    for jr in C.run_jobs(job, cfgs):
        rep.add_job(jr)
    sys.exit(rep.finish("the real evaluation entry points on symbolic tensors with before/after comparison of the caller's tensors (through views), of all parameters and buffers, and of a repeated call; decided on term identity per feasible path"))


if __name__ == "__main__":
    main()
