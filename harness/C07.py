"""C07 - coupling layers leave identity features untouched and condition only on them.

The real coupling classes are constructed *inside* the exploration with a fully symbolic mask (any numeric
values): `masked_select(mask <= 0)` / `masked_select(mask > 0)` fork, so every path is one sign pattern of the
mask with its path condition over the real mask values - all 2^F patterns for F <= 3 (4 in thorough).  The
conditioner is an uninterpreted-function stub that records what it is handed.  On every path, for forward and
inverse, 2-D and image inputs:

  identity       outputs at the features with mask <= 0 are *the input terms themselves* (no arithmetic at all)
  conditioning   the conditioner received exactly the identity features (and the context), nothing else
  triangular     d out_t / d x_t' == 0 for two different transformed features (dual numbers), d out_t / d x_t > 0
  degenerate     masks with no transformed or no identity feature are either refused or still satisfy the above
  unconditional  with an unconditional transform the identity part equals that transform applied on its own
"""
import itertools
import sys

import numpy as np
import torch

from harness import common as C
from harness import C01
from harness import transformkit as TK
from symtorch import term as tm, scalars as sc, smt, explore, stubs
from symtorch.scalars import S
from symtorch.tensor import Sym, _obj

from nflows.transforms import coupling as CP
from nflows.transforms import normalization as NM

PROP = "C07"

CLASSES = {
    "Affine": lambda mask, net, **kw: CP.AffineCouplingTransform(mask, net, **kw),
    "Additive": lambda mask, net, **kw: CP.AdditiveCouplingTransform(mask, net, **kw),
    "PiecewiseRationalQuadratic": lambda mask, net, **kw: CP.PiecewiseRationalQuadraticCouplingTransform(mask, net, num_bins=2, tails="linear", tail_bound=3.0),
    "PiecewiseLinear": lambda mask, net, **kw: CP.PiecewiseLinearCouplingTransform(mask, net, num_bins=2, tails="linear", tail_bound=3.0),
}


def job(cfg):
    cls, Fn, image, direction, uncond = cfg["cls"], cfg["F"], cfg["image"], cfg["direction"], cfg.get("uncond", False)
    reuse = cfg.get("mask_reused", False)
    timeout = cfg["timeout"]
    R = sc.new_registry()
    solver = smt.Z3Proc()
    h = {}
    in_shape = (Fn, 1, 2) if image else (Fn,)

    def fn():
        mask = stubs.named_tensor("mask", (Fn,), lo=-2, hi=2)  # any real values in (-2, 2): 0, fractions and negatives included
        net_factory = TK.ufnet_factory("cond", hidden_features=4)
        kw = {}
        if uncond:
            kw["unconditional_transform"] = lambda features: NM.ActNorm(features)
        with stubs.torch_patches():
            m = CLASSES[cls](mask, net_factory, **kw)
            m.eval()
            orig = [mask.a[i].t for i in range(Fn)]
            if reuse:
                # the caller keeps using its own mask tensor after construction (SimpleRealNVP flips one shared mask
                # in place between layers): the layer must keep the pattern it was constructed with
                mask *= -1
            if uncond:
                m.unconditional_transform.initialized.data = torch.tensor(True)
                TK.symbolize(m.unconditional_transform, prefix="u_")
            pattern = [bool(S(tm.le0(orig[i]))) for i in range(Fn)]  # True = identity (decisions are memoised)
            x = stubs.named_tensor("x", (1,) + in_shape, seed_base=0)
            ctx = stubs.named_tensor("ctx", (1, 2)) if not image else None
            out, lad = (m(x, ctx) if direction == "forward" else m.inverse(x, ctx))
            ref = None
            if uncond:
                ident = x[:, [i for i in range(Fn) if pattern[i]], ...]
                ref = (m.unconditional_transform(ident, ctx) if direction == "forward" else m.unconditional_transform.inverse(ident, ctx))[0]
        h.update(x=x, ctx=ctx)
        return m, pattern, out, lad, ref

    ex = explore.Explorer(R, solver, max_paths=2000, decide_timeout=10.0)
    results = ex.explore(fn)
    name = "%sCoupling/F=%d/%s/%s%s%s" % (cls, Fn, "image" if image else "2d", direction, "/uncond" if uncond else "", "/mask-flipped-by-caller-after-construction" if reuse else "")
    jr = C01.new_jr("%sCouplingTransform" % cls)
    jr["paths"] = len(results)
    jr["prune_queries"] = ex.stats["prune_queries"]
    patterns_seen = set()
    sig = {"cls": cls, "image": image, "direction": direction, "uncond": uncond, "mask_reused": reuse}
    per = int(np.prod(in_shape[1:])) if image else 1

    def fail(relation, pattern, detail, path=None):
        mask_values = None
        if path is not None:
            st, model, _, _ = C.check_sat(R, solver, path.condition(), 20, extra=[tm.var("mask_%d" % i) for i in range(Fn)])
            if st == "sat" and model:
                mv = {k.args[0]: float(v) for k, v in model.items() if k.op == "var" and k.args[0].startswith("mask_")}
                mask_values = [mv.get("mask_%d" % i, -1.0 if pattern[i] else 1.0) for i in range(Fn)]
        rep = replay(cls, Fn, image, direction, uncond, pattern, relation, mask_values=mask_values, mask_reused=reuse)
        payload = {"property": PROP, "kernel": jr["kernel"], "relation": relation, "signature": sig, "pattern": pattern, "detail": detail, "replay_result": rep,
                   "replay_call": {"fn": "harness.C07:replay", "args": {"cls": cls, "Fn": Fn, "image": image, "direction": direction, "uncond": uncond, "pattern": pattern, "relation": relation, "mask_values": mask_values, "mask_reused": reuse}}}
        if rep.get("reproduced"):
            fn_ = "".join(ch if ch.isalnum() else "_" for ch in "%s_%s" % (name, relation))[:110]
            jr["violations"].append({"kernel": jr["kernel"], "relation": relation, "signature": sig, "replay": C.write_replay(PROP, fn_, payload), "detail": rep})
        else:
            jr["inconclusive"].append({"query": name + "/" + relation, "pattern": pattern, "why": "symbolic mismatch not reproduced on real tensors", "detail": detail, "replay": rep})

    for i, r in enumerate(results):
        p = r.path
        if r.kind == "notmodelled":
            jr["inconclusive"].append({"path": p.describe()[:4], "notmodelled": str(r.exc), "tb": (r.tb or "")[-400:]})
            continue
        if r.kind == "raise":
            jr["exception_paths"] += 1
            # refusing a degenerate mask is acceptable; anything else must be looked at
            jr["outcomes"].append({"name": "%s/path%d/raises:%s" % (name, i, type(r.exc).__name__), "kind": "note", "status": "unsat", "s": 0.0, "expect": "unsat", "detail": str(r.exc)[:80] + " | " + "; ".join(p.describe()[:Fn])})
            continue
        m, pattern, out, lad, ref = r.value
        patterns_seen.add(tuple(pattern))
        pname = "%s/%s" % (name, "".join("I" if b else "T" for b in pattern))
        x = h["x"]
        xin = x.a[0].reshape(Fn, -1)
        xo = out.a[0].reshape(Fn, -1)
        ok_ident = True
        for f in range(Fn):
            if pattern[f]:
                for k in range(xin.shape[1]):
                    if uncond:
                        continue
                    if xo[f, k].t is not xin[f, k].t:
                        ok_ident = False
        jr["outcomes"].append({"name": pname + "/identity-features-are-the-input-terms", "kind": "goal", "status": "unsat" if ok_ident else "sat", "s": 0.0, "expect": "unsat", "rung": "syntactic"})
        if not ok_ident:
            fail("identity-untouched", pattern, "an identity output term differs from its input term", p)
        if uncond and ref is not None:
            ro = ref.a[0].reshape(sum(pattern), -1)
            idx = [f for f in range(Fn) if pattern[f]]
            same = all(xo[f, k].t is ro[j, k].t for j, f in enumerate(idx) for k in range(ro.shape[1]))
            jr["outcomes"].append({"name": pname + "/identity-part==unconditional-transform-alone", "kind": "goal", "status": "unsat" if same else "sat", "s": 0.0, "expect": "unsat", "rung": "syntactic"})
            if not same:
                fail("unconditional-alone", pattern, "identity part is not the unconditional transform applied alone", p)
        # what the conditioner saw
        calls = m.transform_net.calls
        ident_terms = set()
        if uncond:
            src = ref.a[0].reshape(-1) if (ref is not None and direction == "inverse") else np.array([xin[f, k] for f in range(Fn) if pattern[f] for k in range(xin.shape[1])], dtype=object)
            ident_terms = {s.t for s in src}
        else:
            ident_terms = {xin[f, k].t for f in range(Fn) if pattern[f] for k in range(xin.shape[1])}
        ok_cond = len(calls) == 1
        seen_terms = set()
        for (cx, cc) in calls:
            seen_terms |= {s.t for s in cx.a.reshape(-1)}
            if cc is not None and h["ctx"] is not None:
                ok_cond = ok_cond and all(a.t is b.t for a, b in zip(cc.a.reshape(-1), h["ctx"].a.reshape(-1)))
        ok_cond = ok_cond and seen_terms == ident_terms
        jr["outcomes"].append({"name": pname + "/conditioner-sees-exactly-identity-features(+context)", "kind": "goal", "status": "unsat" if ok_cond else "sat", "s": 0.0, "expect": "unsat", "rung": "syntactic"})
        if not ok_cond:
            fail("conditioner-inputs", pattern, "conditioner saw %d terms, identity set has %d" % (len(seen_terms), len(ident_terms)), p)
        # Jacobian sparsity / monotonicity through dual numbers
        cond = p.condition()
        offdiag, diag = [], []
        for f in range(Fn):
            if pattern[f]:
                continue
            for k in range(xin.shape[1]):
                d = xo[f, k].d or {}
                own = f * per + k
                for g in range(Fn):
                    for k2 in range(xin.shape[1]):
                        j = g * per + k2
                        if j == own:
                            diag.append(d.get(j, tm.ZERO))
                        elif not pattern[g] or k2 != k:
                            # other transformed features, and (for images) other pixels of identity features are
                            # allowed to matter only through the conditioner: transformed ones must not at all
                            if not pattern[g]:
                                offdiag.append(d.get(j, tm.ZERO))
        bad = [t for t in offdiag if not (t.op == "const" and t.args[0] == 0)]
        jr["outcomes"].append({"name": pname + "/no-dependence-on-other-transformed-features", "kind": "goal", "status": "unsat" if not bad else "sat", "s": 0.0, "expect": "unsat", "rung": "syntactic"})
        if bad:
            fail("triangular", pattern, "a transformed output has a non-zero derivative w.r.t. another transformed input", p)
        if diag and not cls.startswith("Piecewise"):  # positivity of the spline derivative is C09's claim
            o = C.prove(R, solver, pname + "/d out_t/d x_t > 0", tm.and_(*[tm.gt(t, tm.ZERO) for t in diag]), [cond], timeout)
            jr["outcomes"].append(o.as_dict())
            if o.status == "sat":
                fail("monotone", pattern, "own derivative not positive", p)
            elif o.status != "unsat":
                jr["inconclusive"].append({"query": o.name, "status": o.status})
        w = C.witness(R, solver, pname + "/reach", cond, timeout)
        jr["outcomes"].append(w.as_dict())
        if w.status != "sat":
            jr["inconclusive"].append({"query": w.name, "status": w.status})
        if len(jr["samples"]) < 1:
            jr["samples"].append({"case": pname, "mask_condition": p.describe()[:Fn], "conditioner_args": [tm.pretty(t) for t in list(seen_terms)[:4]]})
    nontrivial = {pt for pt in itertools.product((True, False), repeat=Fn) if any(pt) and not all(pt)}
    missing = nontrivial - patterns_seen
    raised_ok = True
    if missing:
        jr["inconclusive"].append({"query": name, "why": "mask patterns never reached a return: %s" % sorted(missing)})
    solver.close()
    return jr


def replay(cls, Fn, image, direction, uncond, pattern, relation, mask_values=None, mask_reused=False):
    """real tensors, a small real conditioner: identity features bit-for-bit, Jacobian sparsity by autograd."""
    res = {"reproduced": False}
    try:
        torch.manual_seed(3)
        mask = list(mask_values) if mask_values else [-1.0 if b else 1.0 for b in pattern]
        pattern = [mv <= 0 for mv in mask]  # the documented meaning of the mask: entries <= 0 are identity features

        class Net(torch.nn.Module):
            def __init__(self, i, o):
                super().__init__()
                self.hidden_features = 4
                self.i, self.o = i, o
                self.lin = None

            def forward(self, x, context=None):
                n = x.shape[0]
                flat = x.reshape(n, -1)
                if context is not None:
                    flat = torch.cat([flat, context.reshape(n, -1)], 1)
                if self.lin is None:
                    g = torch.Generator().manual_seed(5)
                    self.w = torch.randn(flat.shape[1], self.o * int(np.prod(x.shape[2:])), generator=g, dtype=x.dtype)
                return torch.tanh(flat @ self.w).reshape((n, self.o) + tuple(x.shape[2:]))

        kw = {}
        if uncond:
            kw["unconditional_transform"] = lambda features: NM.ActNorm(features)
        if mask_reused:
            mask = torch.tensor(mask, dtype=torch.float64)  # .double() below then keeps the very same tensor
        m = CLASSES[cls](mask, lambda i, o: Net(i, o), **kw).double().eval()
        if mask_reused:
            mask *= -1  # the caller's own tensor, flipped in place after the layer was built
        shape = (2, Fn, 1, 2) if image else (2, Fn)
        x = torch.rand(shape, dtype=torch.float64) * 2 - 1
        ctx = None if image else torch.randn(2, 2, dtype=torch.float64)
        f = (lambda z: m(z, ctx)[0]) if direction == "forward" else (lambda z: m.inverse(z, ctx)[0])
        y = f(x)
        ident = [i for i in range(Fn) if pattern[i]]
        if relation == "identity-untouched":
            res["reproduced"] = not torch.equal(y[:, ident], x[:, ident])
        elif relation in ("triangular", "conditioner-inputs"):
            J = torch.autograd.functional.jacobian(f, x)
            worst = 0.0
            trans = [i for i in range(Fn) if not pattern[i]]
            for a in trans:
                for b in trans:
                    if a != b:
                        worst = max(worst, float(J[:, a, ..., :, b, ...].abs().max()))
            res["max_cross_derivative"] = worst
            res["reproduced"] = worst > 0
        elif relation == "unconditional-alone":
            ref = (m.unconditional_transform(x[:, ident], ctx) if direction == "forward" else m.unconditional_transform.inverse(x[:, ident], ctx))[0]
            res["reproduced"] = not torch.allclose(y[:, ident], ref)
    except Exception as e:  # noqa
        res["exception"] = "%s: %s" % (type(e).__name__, e)
    return res


def configs(tier):
    t = 60 if tier == "quick" else 300
    cfgs = []
    Fs = (2, 3) if tier == "quick" else (2, 3, 4)
    for cls in CLASSES:
        for Fn in Fs:
            if cls.startswith("Piecewise") and Fn > (2 if tier == "quick" else 3):
                continue
            for image in (False, True):
                if image and cls == "PiecewiseLinear":
                    continue
                if image and cls.startswith("Piecewise") and (tier == "quick" or Fn > 2):
                    continue  # two pixels x (bins + tails) paths each: thorough tier only, two channels (three channels ran > 1 h on one core)
                for direction in ("forward", "inverse"):
                    cfgs.append({"cls": cls, "F": Fn, "image": image, "direction": direction, "timeout": t})
    for direction in ("forward", "inverse"):
        cfgs.append({"cls": "Affine", "F": 3, "image": False, "direction": direction, "uncond": True, "timeout": t})
        for cls in (("Affine", "Additive") if tier == "quick" else tuple(CLASSES)):
            cfgs.append({"cls": cls, "F": 2 if cls.startswith("Piecewise") else 3, "image": False, "direction": direction, "mask_reused": True, "timeout": t})
    return cfgs


def main():
    rep = C.Report(PROP)
    cfgs = configs(C.TIER)
    rep.functions = C.source_hash([CP.CouplingTransform, CP.AffineCouplingTransform, CP.AdditiveCouplingTransform, CP.PiecewiseCouplingTransform, CP.PiecewiseRationalQuadraticCouplingTransform, CP.PiecewiseLinearCouplingTransform])
    rep.bounds = {"classes": list(CLASSES), "features": sorted({c["F"] for c in cfgs}), "masks": "every sign pattern, arbitrary real mask values (symbolic)", "inputs": "2-D (1 x F) with a 2-feature context and images (1 x F x 1 x 2)", "directions": ["forward", "inverse"]}
    rep.assumptions = ["the conditioner is an arbitrary (uninterpreted) function of what it is handed", "one batch row; row independence is C12", "bit-for-bit identity is shown as syntactic identity of terms: no arithmetic is applied to identity features"]
    rep.stubs = ["UFNet conditioner recording its arguments", "torch.as_tensor pass-through for the symbolic mask"]
    for jr in C.run_jobs(job, cfgs):
        rep.add_job(jr)
    rep.extra["exhaustive"] = True
    sys.exit(rep.finish("the real coupling constructors and passes run on a symbolic mask (paths = sign patterns); identity/conditioning/sparsity are term identities, monotonicity is decided by z3"))


if __name__ == "__main__":
    main()
