"""C08 - Composite, Inverse and Multiscale wrappers are exact function composition.

Stages are real `PointwiseAffineTransform`s whose scalar scale a_s != 0 and shift b_s are distinct symbols, so no
two stages commute and a reversed / dropped / duplicated stage changes the output term; shape-changing real
stages (SqueezeTransform, ReversePermutation) are mixed in for the image cases.  The wrappers' outputs are
compared, as terms, with a reference obtained by chaining the same real stages by hand in the documented
order; the log-abs-dets must be the sum over the parts.  MultiscaleCompositeTransform is checked against a short
reference model of its documented routing for every input shape, split dimension and number of stages within
the bound, in both directions (inverse o forward == identity, term-wise).
"""
import itertools
import json
import sys

import numpy as np
import torch

from harness import common as C
from harness import C01
from harness import transformkit as TK
from symtorch import term as tm, scalars as sc, smt, explore, stubs, poly
from symtorch.scalars import S
from symtorch.tensor import Sym, _obj

from nflows.transforms import base as B
from nflows.transforms import standard as ST
from nflows.transforms import permutations as PM
from nflows.transforms import reshape as RS

PROP = "C08"


def affine(i):
    m = ST.PointwiseAffineTransform(shift=0.5, scale=2.0)
    m._buffers["_shift"] = stubs.scalar("b%d" % i)
    m._buffers["_scale"] = stubs.scalar("a%d" % i)
    sc.reg().sign[tm.var("a%d" % i)] = None
    return m


def nz(i):
    return tm.not_(tm.eq0(tm.var("a%d" % i)))


def same_terms(A, Bv):
    a, b = A.a.reshape(-1), Bv.a.reshape(-1)
    return A.a.shape == Bv.a.shape and all(x.t is y.t for x, y in zip(a, b))


def eq_terms(R, solver, A, Bv, asm, timeout):
    """term arrays equal: syntactically, else as polynomial identities decided by z3."""
    if A.a.shape != Bv.a.shape:
        return "shape %s vs %s" % (A.a.shape, Bv.a.shape)
    goals = []
    for x, y in zip(A.a.reshape(-1), Bv.a.reshape(-1)):
        if x.t is y.t:
            continue
        g, _ = poly.eq_goal(x.t, y.t)
        goals.append(g)
    if not goals:
        return None
    o = C.prove(R, solver, "eq", tm.and_(*goals), [asm], timeout)
    return None if o.status == "unsat" else "terms differ (%s)" % o.status


def lad_equal(R, solver, l1, l2, asm, timeout):
    a, b = l1.a.reshape(-1), l2.a.reshape(-1)
    if a.shape != b.shape:
        return "lad shape %s vs %s" % (a.shape, b.shape)
    gs = []
    for x, y in zip(a, b):
        if x.t is y.t:
            continue
        e = sc.t_exp(tm.sub(x.t, y.t))
        g, _ = poly.eq_goal(e, tm.ONE)
        gs.append(g)
    if not gs:
        return None
    o = C.prove(R, solver, "lad", tm.and_(*gs), [asm], timeout)
    return None if o.status == "unsat" else "log-abs-dets differ (%s)" % o.status


def chain(stages, x, inverse=False):
    """reference: the parts applied by hand in the documented order, log-abs-dets summed."""
    lad = None
    seq = list(reversed(stages)) if inverse else list(stages)
    for s in seq:
        x, l = (s.inverse(x) if inverse else s(x))
        lad = l if lad is None else lad + l
    return x, lad


def job_composite(cfg):
    n, nesting, shape = cfg["n"], cfg["nesting"], tuple(cfg["shape"])
    timeout = cfg["timeout"]
    R = sc.new_registry()
    solver = smt.Z3Proc()
    jr = C01.new_jr("CompositeTransform/InverseTransform")
    name = "composite/n=%d/%s/shape=%s" % (n, nesting, list(shape))
    with stubs.torch_patches():
        stages = [affine(i) for i in range(n)]
        asm = [nz(i) for i in range(n)]
        if cfg.get("perm") and len(shape) == 1 and shape[0] > 1:
            stages.insert(1, PM.ReversePermutation(shape[0]))
        x = stubs.named_tensor("x", (2,) + shape)
        if nesting == "flat":
            comp = B.CompositeTransform(stages)
            ref_f = lambda z: chain(stages, z)  # noqa
            ref_i = lambda z: chain(stages, z, inverse=True)  # noqa
        elif nesting == "nested":
            comp = B.CompositeTransform([B.CompositeTransform(stages[:1]), B.CompositeTransform(stages[1:])]) if n > 1 else B.CompositeTransform([B.CompositeTransform(stages)])
            ref_f = lambda z: chain(stages, z)  # noqa
            ref_i = lambda z: chain(stages, z, inverse=True)  # noqa
        elif nesting == "inverse-of-composite":
            comp = B.InverseTransform(B.CompositeTransform(stages))
            ref_f = lambda z: chain(stages, z, inverse=True)  # noqa
            ref_i = lambda z: chain(stages, z)  # noqa
        elif nesting == "composite-of-inverses":
            comp = B.CompositeTransform([B.InverseTransform(s) for s in stages])
            def ref_f(z):  # noqa
                lad = None
                for s in stages:
                    z, l = s.inverse(z)
                    lad = l if lad is None else lad + l
                return z, lad
            def ref_i(z):  # noqa
                lad = None
                for s in reversed(stages):
                    z, l = s(z)
                    lad = l if lad is None else lad + l
                return z, lad
        else:
            raise ValueError(nesting)
        comp.eval()
        checks = 0
        for dname, run, ref in (("forward", lambda z: comp(z), ref_f), ("inverse", lambda z: comp.inverse(z), ref_i)):
            out, lad = run(x)
            ro, rl = ref(x)
            err = eq_terms(R, solver, out, ro, asm, timeout) or lad_equal(R, solver, lad, rl, asm, timeout)
            checks += 1
            jr["outcomes"].append({"name": "%s/%s==parts-chained-in-order" % (name, dname), "kind": "goal", "status": "unsat" if err is None else "sat", "s": 0.0, "expect": "unsat", "detail": err or ""})
            if err is not None:
                record_violation(jr, "composition-order", {"nesting": nesting, "direction": dname}, {"kind": "composite", "n": n, "nesting": nesting, "shape": list(shape), "direction": dname, "perm": bool(cfg.get("perm"))}, err)
        # vacuity twin: the reversed order is a different term (stages do not commute)
        if n > 1:
            out, _ = comp(x)
            wrong, _ = chain(list(reversed(stages)), x) if nesting in ("flat", "nested") else (None, None)
            if wrong is not None:
                differs = eq_terms(R, solver, out, wrong, asm, min(timeout, 20)) is not None
                jr["outcomes"].append({"name": name + "/twin:reversed-order-differs", "kind": "twin", "status": "sat" if differs else "unsat", "s": 0.0, "expect": "sat"})
                if not differs:
                    jr["inconclusive"].append({"query": name + "/twin", "why": "reversed order not distinguishable"})
    jr["paths"] = checks
    jr["samples"].append({"case": name, "stages": ["x -> a%d*x + b%d" % (i, i) for i in range(n)], "claim": "wrapper output terms == hand-chained terms; lad == sum"})
    solver.close()
    return jr


# ---- wrapper programs: every nesting of Composite / Inverse over the stages, up to a depth -----------------------

def gen_trees(leaves, depth):
    """all wrapper programs over the ordered leaf stages: a leaf index, ("C", [children...]) or ("I", child)."""
    out = []
    if len(leaves) == 1:
        out.append(leaves[0])
    if depth > 0:
        n = len(leaves)
        # every way to cut the sequence into k >= 1 consecutive groups
        for cuts in itertools.product((0, 1), repeat=n - 1):
            groups, cur = [], [leaves[0]]
            for i, c in enumerate(cuts):
                if c:
                    groups.append(cur)
                    cur = []
                cur.append(leaves[i + 1])
            groups.append(cur)
            if len(groups) == 1 and n > 1:
                continue  # (a composite of the single group would recurse on the same leaves)
            for children in itertools.product(*[gen_trees(g, depth - 1) for g in groups]):
                out.append(("C", list(children)))
        for sub in gen_trees(leaves, depth - 1):
            if not (isinstance(sub, tuple) and sub[0] == "I"):
                out.append(("I", sub))
    return out


def build_tree(node, stages):
    if isinstance(node, int):
        return stages[node]
    if node[0] == "C":
        return B.CompositeTransform([build_tree(c, stages) for c in node[1]])
    return B.InverseTransform(build_tree(node[1], stages))


def ref_tree(node, stages, z, inv):
    """reference semantics, written from the documentation: a composite applies its parts in order (its inverse: the
    parts' inverses in reverse order); an inverse wrapper swaps the directions; log-abs-dets add up."""
    if isinstance(node, int):
        return stages[node].inverse(z) if inv else stages[node](z)
    if node[0] == "I":
        return ref_tree(node[1], stages, z, not inv)
    lad = None
    for c in (reversed(node[1]) if inv else node[1]):
        z, l = ref_tree(c, stages, z, inv)
        lad = l if lad is None else lad + l
    return z, lad


def show_tree(node):
    if isinstance(node, int):
        return "s%d" % node
    if node[0] == "C":
        return "C[%s]" % ",".join(show_tree(c) for c in node[1])
    return "I(%s)" % show_tree(node[1])


def job_programs(cfg):
    timeout = cfg["timeout"]
    R = sc.new_registry()
    solver = smt.Z3Proc()
    jr = C01.new_jr("CompositeTransform/InverseTransform")
    checks = 0
    with stubs.torch_patches():
        for n, tree in cfg["trees"]:
            stages = [affine(i) for i in range(n)]
            asm = [nz(i) for i in range(n)]
            x = stubs.named_tensor("x", (1, 2))
            comp = build_tree(tree, stages)
            comp.eval()
            name = "program/%s" % show_tree(tree)
            for dname, inv in (("forward", False), ("inverse", True)):
                out, lad = comp.inverse(x) if inv else comp(x)
                ro, rl = ref_tree(tree, stages, x, inv)
                err = eq_terms(R, solver, out, ro, asm, timeout) or lad_equal(R, solver, lad, rl, asm, timeout)
                checks += 1
                jr["outcomes"].append({"name": "%s/%s==reference-semantics" % (name, dname), "kind": "goal", "status": "unsat" if err is None else "sat", "s": 0.0, "expect": "unsat", "detail": err or ""})
                if err is not None and not any(v["relation"] == "program-semantics" for v in jr["violations"]):
                    record_violation(jr, "program-semantics", {"direction": dname}, {"kind": "program", "n": n, "shape": [2], "direction": dname, "nesting": json.dumps(tree)}, err)
    jr["paths"] = checks
    jr["samples"].append({"programs": [show_tree(t) for _, t in cfg["trees"][:6]], "claim": "wrapper output terms and log-abs-det == the recursive reference semantics"})
    solver.close()
    return jr


def ms_reference(stages, shapes_after, split_dim, x):
    """reference model of the documented multiscale routing (RealNVP): after every stage but the last the
    result is split in two along split_dim; the first half is output as it is, the second goes on."""
    outs, lad = [], None
    h = x
    for i, s in enumerate(stages):
        h, l = s(h)
        lad = l if lad is None else lad + l
        if i < len(stages) - 1:
            size = h.a.shape[split_dim]
            first = (size + 1) // 2
            idx = [slice(None)] * h.a.ndim
            idx[split_dim] = slice(0, first)
            o = Sym(h.a[tuple(idx)])
            idx[split_dim] = slice(first, size)
            h = Sym(h.a[tuple(idx)])
            outs.append(o.reshape(x.a.shape[0], -1))
        else:
            outs.append(h.reshape(x.a.shape[0], -1))
    return Sym(np.concatenate([o.a for o in outs], axis=1)), lad


def job_multiscale(cfg):
    shape, split_dim, n = tuple(cfg["shape"]), cfg["split_dim"], cfg["n"]
    timeout = cfg["timeout"]
    R = sc.new_registry()
    solver = smt.Z3Proc()
    jr = C01.new_jr("MultiscaleCompositeTransform")
    name = "multiscale/shape=%s/split_dim=%d/stages=%d" % (list(shape), split_dim, n)
    with stubs.torch_patches():
        stages = [affine(i) for i in range(n)]
        asm = [nz(i) for i in range(n)]
        ms = B.MultiscaleCompositeTransform(num_transforms=n, split_dim=split_dim)
        cur = shape
        accepted = True
        try:
            for i, s in enumerate(stages):
                cur = ms.add_transform(s, cur)
        except ValueError as e:
            accepted = False
            # a dimension of size < 2 cannot be split: documented refusal
            ok = True
            c2 = shape
            refuse = False
            for i in range(n):
                if c2[split_dim - 1] < 2:
                    refuse = True
                    break
                c2 = tuple(v if d != split_dim - 1 else v // 2 for d, v in enumerate(c2))
            jr["outcomes"].append({"name": name + "/refused-iff-unsplittable", "kind": "goal", "status": "unsat" if refuse else "sat", "s": 0.0, "expect": "unsat", "detail": str(e)})
            if not refuse:
                jr["inconclusive"].append({"query": name, "why": "add_transform refused a splittable shape: %s" % e})
        if accepted:
            ms.eval()
            x = stubs.named_tensor("x", (2,) + shape)
            out, lad = ms(x)
            ro, rl = ms_reference(stages, None, split_dim, x)
            err = eq_terms(R, solver, out, ro, asm, timeout) or lad_equal(R, solver, lad, rl, asm, timeout)
            jr["outcomes"].append({"name": name + "/forward==documented-routing", "kind": "goal", "status": "unsat" if err is None else "sat", "s": 0.0, "expect": "unsat", "detail": err or ""})
            if err is not None:
                record_violation(jr, "multiscale-routing", {"direction": "forward"}, {"kind": "multiscale", "shape": list(shape), "split_dim": split_dim, "n": n, "direction": "forward"}, err)
            # every input coordinate reaches exactly one output position
            srcs = [frozenset(v.args[0] for v in tm.free_vars(s.t) if v.args[0].startswith("x_")) for s in out.a[0]]
            ok = all(len(s) == 1 for s in srcs) and len(set(srcs)) == int(np.prod(shape)) == out.a.shape[1]
            jr["outcomes"].append({"name": name + "/each-coordinate-to-exactly-one-output", "kind": "goal", "status": "unsat" if ok else "sat", "s": 0.0, "expect": "unsat"})
            if not ok:
                record_violation(jr, "multiscale-routing", {"direction": "bijection"}, {"kind": "multiscale", "shape": list(shape), "split_dim": split_dim, "n": n, "direction": "forward"}, "coordinates not routed one-to-one")
            back, lad_b = ms.inverse(out)
            err = eq_terms(R, solver, back, x, asm, timeout)
            if err is None:
                zero = lad + lad_b
                err = lad_equal(R, solver, zero, Sym(_obj(np.array([S(tm.ZERO)] * zero.a.shape[0], dtype=object))), asm, timeout)
            jr["outcomes"].append({"name": name + "/inverse(forward(x))==x,lads-cancel", "kind": "goal", "status": "unsat" if err is None else "sat", "s": 0.0, "expect": "unsat", "detail": err or ""})
            if err is not None:
                record_violation(jr, "multiscale-routing", {"direction": "inverse"}, {"kind": "multiscale", "shape": list(shape), "split_dim": split_dim, "n": n, "direction": "inverse"}, err)
    jr["paths"] = 1
    jr["samples"].append({"case": name, "accepted": accepted})
    solver.close()
    return jr


def record_violation(jr, relation, sig, call, err):
    with stubs.real_torch():  # (callers may still be inside the symbolic torch patches)
        rep = replay(**call)
    payload = {"property": PROP, "kernel": jr["kernel"], "relation": relation, "signature": sig, "error": err, "replay_result": rep, "replay_call": {"fn": "harness.C08:replay", "args": call}}
    if rep.get("reproduced"):
        fn = "".join(ch if ch.isalnum() else "_" for ch in "%s_%s_%s" % (jr["kernel"], relation, sorted(sig.items())))[:110]
        jr["violations"].append({"kernel": jr["kernel"], "relation": relation, "signature": sig, "replay": C.write_replay(PROP, fn, payload), "detail": rep})
    else:
        jr["inconclusive"].append({"query": jr["kernel"] + "/" + relation, "why": "term mismatch not reproduced on real tensors", "error": err, "replay": rep})


def replay(kind, n, shape, direction, nesting=None, split_dim=1, perm=False):
    res = {"reproduced": False}
    try:
        torch.manual_seed(2)
        stages = [ST.PointwiseAffineTransform(shift=float(i + 1) * 0.37, scale=float(i + 2) * 0.61) for i in range(n)]
        x = torch.randn((3,) + tuple(shape), dtype=torch.float32).double()
        stages = [s.double() for s in stages]
        if kind == "program":
            tree = json.loads(nesting)

            def norm(t):
                return t if isinstance(t, int) else ((t[0], [norm(c) for c in t[1]]) if t[0] == "C" else (t[0], norm(t[1])))

            tree = norm(tree)
            comp = build_tree(tree, stages)
            inv = direction != "forward"
            out, lad = comp.inverse(x) if inv else comp(x)
            z, tot = ref_tree(tree, stages, x, inv)
            res["program"] = show_tree(tree)
            res["max_err"] = float((out - z).abs().max())
            res["lad_err"] = float((lad - tot).abs().max())
            res["reproduced"] = res["max_err"] > 1e-9 or res["lad_err"] > 1e-9
            return res
        if kind == "composite":
            if perm and len(shape) == 1 and shape[0] > 1:
                stages.insert(1, PM.ReversePermutation(shape[0]))
            if nesting in ("flat", "nested"):
                comp = B.CompositeTransform(stages) if nesting == "flat" else (B.CompositeTransform([B.CompositeTransform(stages[:1]), B.CompositeTransform(stages[1:])]) if n > 1 else B.CompositeTransform([B.CompositeTransform(stages)]))
                fwd = direction == "forward"
            elif nesting == "inverse-of-composite":
                comp = B.InverseTransform(B.CompositeTransform(stages))
                fwd = direction == "forward"
            else:
                comp = B.CompositeTransform([B.InverseTransform(s) for s in stages])
                fwd = direction == "forward"
            out, lad = comp(x) if fwd else comp.inverse(x)
            # independent oracle
            z, tot = x, torch.zeros(3, dtype=torch.float64)
            use_inverse = (nesting in ("inverse-of-composite", "composite-of-inverses")) == fwd
            seq = stages
            if (nesting in ("flat", "nested") and not fwd) or (nesting == "inverse-of-composite" and fwd) or (nesting == "composite-of-inverses" and not fwd):
                seq = list(reversed(stages))
            for s in seq:
                z, l = (s.inverse(z) if use_inverse else s(z))
                tot = tot + l
            res["max_err"] = float((out - z).abs().max())
            res["lad_err"] = float((lad - tot).abs().max())
            res["reproduced"] = res["max_err"] > 1e-9 or res["lad_err"] > 1e-9
        else:
            ms = B.MultiscaleCompositeTransform(num_transforms=n, split_dim=split_dim)
            cur = tuple(shape)
            for s in stages:
                cur = ms.add_transform(s, cur)
            out, lad = ms(x)
            back, lb = ms.inverse(out)
            res["roundtrip_err"] = float((back - x).abs().max())
            res["lad_sum"] = float((lad + lb).abs().max())
            # routing oracle
            outs, h, tot = [], x, torch.zeros(3, dtype=torch.float64)
            for i, s in enumerate(stages):
                h, l = s(h)
                tot = tot + l
                if i < n - 1:
                    size = h.shape[split_dim]
                    first = (size + 1) // 2
                    o, h = h.narrow(split_dim, 0, first), h.narrow(split_dim, first, size - first)
                    outs.append(o.reshape(3, -1))
                else:
                    outs.append(h.reshape(3, -1))
            ref = torch.cat(outs, 1)
            res["routing_err"] = float((out - ref).abs().max()) if out.shape == ref.shape else float("inf")
            res["reproduced"] = res["roundtrip_err"] > 1e-9 or res["lad_sum"] > 1e-9 or res["routing_err"] > 1e-9 or float((lad - tot).abs().max()) > 1e-9
    except Exception as e:  # noqa
        res["exception"] = "%s: %s" % (type(e).__name__, e)
        res["reproduced"] = kind == "multiscale"
    return res


def job(cfg):
    if cfg["type"] == "programs":
        return job_programs(cfg)
    return job_composite(cfg) if cfg["type"] == "composite" else job_multiscale(cfg)


def configs(tier):
    t = 60
    cfgs = []
    for n in ((1, 2, 3) if tier == "quick" else (1, 2, 3, 4)):
        for nesting in ("flat", "nested", "inverse-of-composite", "composite-of-inverses"):
            for shape in ((2,), (2, 1, 2)):
                cfgs.append({"type": "composite", "n": n, "nesting": nesting, "shape": list(shape), "timeout": t})
        cfgs.append({"type": "composite", "n": n, "nesting": "flat", "shape": [3], "perm": True, "timeout": t})
    # wrapper programs: every nesting of Composite / Inverse over 1-3 stages up to depth 3 (quick) / 4 (thorough)
    progs = []
    for n in (1, 2, 3):
        for tree in gen_trees(list(range(n)), 3 if tier == "quick" else 4):
            progs.append((n, tree))
    # the same transform instance at several positions (weight sharing): a wrapper must apply it once per position
    for n, leaves in ((1, [0, 0]), (2, [0, 1, 0]), (2, [0, 1, 1]), (2, [0, 0, 1])) + (() if tier == "quick" else ((2, [0, 1, 0, 1]), (3, [0, 1, 2, 0]))):
        for tree in gen_trees(leaves, 2 if tier == "quick" else 3):
            progs.append((n, tree))
    for i in range(0, len(progs), 40):
        cfgs.append({"type": "programs", "trees": progs[i:i + 40], "timeout": t})
    maxc, maxhw = (4, 4) if tier == "quick" else (8, 6)
    shapes = set()
    for c in range(1, maxc + 1):
        shapes.add((c,))
        for hh in range(1, maxhw + 1):
            for ww in range(1, maxhw + 1):
                shapes.add((c, hh, ww))
    for shape in sorted(shapes):
        for split_dim in range(1, len(shape) + 1):
            for n in ((1, 2, 3) if tier == "quick" else (1, 2, 3, 4)):
                if int(np.prod(shape)) > (32 if tier == "quick" else 160):
                    continue
                cfgs.append({"type": "multiscale", "shape": list(shape), "split_dim": split_dim, "n": n, "timeout": t})
    return cfgs


def main():
    rep = C.Report(PROP)
    cfgs = configs(C.TIER)
    rep.functions = C.source_hash([B.CompositeTransform, B.MultiscaleCompositeTransform, B.InverseTransform, ST.PointwiseAffineTransform])
    ms = [c for c in cfgs if c["type"] == "multiscale"]
    rep.bounds = {"wrapper_programs": "every nesting of CompositeTransform / InverseTransform over 1-3 ordered non-commuting stages up to depth %d: %d programs, both directions" % (3 if C.TIER == "quick" else 4, sum(len(c["trees"]) for c in cfgs if c["type"] == "programs")), "composite": "1-3 non-commuting affine stages (+ a permutation), nestings flat / nested / inverse-of-composite / composite-of-inverses, 2-D and image inputs, both directions", "multiscale": "%d (shape, split_dim, stages) combinations: shapes up to %s, every split dimension, 1-3 stages, odd and even sizes" % (len(ms), max(tuple(c["shape"]) for c in ms))}
    rep.assumptions = ["stages are library affine transforms with symbolic non-zero scale and symbolic shift; two batch rows", "the reference for the multiscale routing is a 20-line model of the documented behaviour (first half out, second half on)"]
    rep.stubs = ["PointwiseAffineTransform buffers replaced by symbols"]
    for jr in C.run_jobs(job, cfgs):
        rep.add_job(jr)
    rep.extra["exhaustive"] = True
    sys.exit(rep.finish("wrapper outputs compared term-wise (syntactic identity, else polynomial identity by z3) with hand-chained real stages and with a reference routing model, exhaustively over the shape / split / stage-count grid"))


if __name__ == "__main__":
    main()
