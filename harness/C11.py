"""C11 - linear-family accessors all describe one and the same affine map.

For LU, QR, SVD, naive and Householder parameterisations with every parameter symbolic (features 1-3):
   forward(x)            == weight() @ x + bias                       (matrix() for HouseholderSequence)
   weight() @ weight_inverse()                == I
   exp(logabsdet())^2    == det(weight())^2                           (cofactor determinant)
   weight_and_logabsdet(), weight_inverse_and_logabsdet() agree with the separate accessors (they fill the cache)
   inverse(y)            == weight_inverse() @ (y - bias)
   HouseholderSequence.matrix() is orthogonal: Q^T Q == I
all as polynomial identities decided by z3 under the preconditions "Householder vectors non-zero" / "naive weight
non-singular".  Initialisation: the real constructors run concretely for every (features <= 4, Householder count
<= 2*features + 2, identity / random initialisation) and the symbolic side conditions (|q_k|^2 != 0, finite weight,
det != 0) are evaluated at the initial values.
"""
import itertools
import math
import sys

import numpy as np
import torch

from harness import common as C
from harness import C01
from harness import transformkit as TK
from symtorch import term as tm, scalars as sc, smt, explore, stubs, poly
from symtorch.scalars import S
from symtorch.tensor import Sym, _obj, matmul

from nflows.transforms import linear as LN, lu as LU, qr as QR, svd as SV, orthogonal as OR
from nflows.utils import torchutils

PROP = "C11"


def factories():
    f = {}
    for D in (1, 2, 3):
        f["LULinear/D=%d" % D] = (lambda D=D: LU.LULinear(D), D)
        f["NaiveLinear/D=%d" % D] = (lambda D=D: LN.NaiveLinear(D, orthogonal_initialization=False), D)
    for D, H in ((1, 1), (2, 1), (2, 2), (3, 1), (3, 2)):
        f["QRLinear/D=%d,H=%d" % (D, H)] = (lambda D=D, H=H: QR.QRLinear(D, num_householder=H), D)
        f["HouseholderSequence/D=%d,K=%d" % (D, H)] = (lambda D=D, H=H: OR.HouseholderSequence(D, H), D)
    f["HouseholderSequence/D=2,K=3"] = (lambda: OR.HouseholderSequence(2, 3), 2)
    for D in (1, 2):
        f["SVDLinear/D=%d,H=2" % D] = (lambda D=D: SV.SVDLinear(D, num_householder=2), D)
    return f


FACTORIES = factories()
QUICK = [k for k in FACTORIES if "D=3" not in k or k in ("LULinear/D=3",)]


def job(cfg):
    name = cfg["case"]
    fac, D = FACTORIES[name]
    timeout = cfg["timeout"]
    R = sc.new_registry()
    solver = smt.Z3Proc()
    jr = C01.new_jr(name.split("/")[0])
    jr["paths"] = 1
    errors = []

    def eq(what, A, Bv, asm, log=False):
        a, b = A.a.reshape(-1), Bv.a.reshape(-1)
        if A.a.shape != Bv.a.shape:
            errors.append((what, "shape %s vs %s" % (A.a.shape, Bv.a.shape)))
            jr["outcomes"].append({"name": name + "/" + what, "kind": "goal", "status": "sat", "s": 0.0, "expect": "unsat"})
            return
        gs = []
        for x, y in zip(a, b):
            if x.t is y.t:
                continue
            if log:
                g, _ = poly.eq_goal_reparam(R, sc.t_exp(tm.sub(x.t, y.t)), tm.ONE)
            else:
                g, _ = poly.eq_goal_reparam(R, x.t, y.t)
            gs.append(g)
        goal = tm.and_(*gs) if gs else tm.TRUE
        o = C.prove(R, solver, name + "/" + what, goal, [asm], timeout)
        jr["outcomes"].append(o.as_dict())
        if o.status == "sat":
            errors.append((what, "identity fails"))
        elif o.status != "unsat":
            jr["inconclusive"].append({"query": o.name, "status": o.status})

    with stubs.torch_patches():
        R.begin_run()
        torch.manual_seed(0)
        m = fac()
        m.eval()
        params = TK.symbolize(m)
        asm = []
        for nm, p in params.items():
            if nm.endswith("q_vectors"):
                for row in p.a:
                    asm.append(tm.gt(tm.add(*[tm.mul(s.t, s.t) for s in row]), tm.ZERO))
            if nm == "_weight":
                asm.append(tm.not_(tm.eq0(TK.det_terms([[p.a[i, j].t for j in range(D)] for i in range(D)]))))
        x = stubs.named_tensor("x", (1, D))
        eye = Sym(_obj(np.array([[S(tm.ONE if i == j else tm.ZERO) for j in range(D)] for i in range(D)], dtype=object)))
        try:
            if isinstance(m, OR.HouseholderSequence):
                Q = m.matrix()
                y, lad = m(x)
                eq("forward(x)==x@matrix()^T", y, matmul(x, Q.t()), asm)
                eq("matrix()^T@matrix()==I", matmul(Q.t(), Q), eye, asm)
                xi, ladi = m.inverse(y)
                eq("inverse(forward(x))==x", xi, x, asm)
                eq("logabsdet==0", lad, Sym(_obj(np.array([S(tm.ZERO)], dtype=object))), asm)
            else:
                W = m.weight()
                Wi = m.weight_inverse()
                lad = m.logabsdet()
                y, l = m.forward_no_cache(x)
                eq("forward(x)==x@W^T+b", y, matmul(x, W.t()) + m.bias, asm)
                eq("weight()@weight_inverse()==I", matmul(W, Wi), eye, asm)
                det = TK.det_terms([[W.a[i, j].t for j in range(D)] for i in range(D)])
                E = sc.t_exp(lad.a.reshape(-1)[0].t)
                g, _ = poly.eq_goal_reparam(R, tm.mul(E, E), tm.mul(det, det))
                o = C.prove(R, solver, name + "/exp(logabsdet())^2==det(weight())^2", g, [asm], timeout)
                jr["outcomes"].append(o.as_dict())
                if o.status == "sat":
                    errors.append(("logabsdet", "exp(logabsdet)^2 != det^2"))
                elif o.status != "unsat":
                    jr["inconclusive"].append({"query": o.name, "status": o.status})
                eq("forward-logabsdet==logabsdet()", l, Sym(lad.a.reshape(1)), asm, log=True)
                W2, l2 = m.weight_and_logabsdet()
                eq("weight_and_logabsdet()[0]==weight()", W2, W, asm)
                eq("weight_and_logabsdet()[1]==logabsdet()", Sym(l2.a.reshape(1)), Sym(lad.a.reshape(1)), asm, log=True)
                Wi2, l3 = m.weight_inverse_and_logabsdet()
                eq("weight_inverse_and_logabsdet()[0]==weight_inverse()", Wi2, Wi, asm)
                eq("weight_inverse_and_logabsdet()[1]==logabsdet()", Sym(l3.a.reshape(1)), Sym(lad.a.reshape(1)), asm, log=True)
                yv = stubs.named_tensor("y", (1, D))
                xi, li = m.inverse_no_cache(yv)
                eq("inverse(y)==(y-b)@Winv^T", xi, matmul(yv - m.bias, Wi.t()), asm)
                eq("inverse-logabsdet==-logabsdet()", li, Sym((-lad).a.reshape(1)), asm, log=True)
        except explore.NotModelled as e:
            jr["inconclusive"].append({"query": name, "notmodelled": str(e)})
    # vacuity: the preconditions are satisfiable
    w = C.witness(R, solver, name + "/preconditions-satisfiable", asm or [tm.TRUE], timeout)
    jr["outcomes"].append(w.as_dict())
    if w.status != "sat":
        jr["inconclusive"].append({"query": w.name, "status": w.status})
    for what, err in errors:
        with stubs.real_torch():
            rep = replay_accessors(name)
        sig = {"case": name.split("/")[0], "what": what}
        payload = {"property": PROP, "kernel": name, "relation": what, "signature": sig, "error": err, "replay_result": rep, "replay_call": {"fn": "harness.C11:replay_accessors", "args": {"name": name}}}
        if rep.get("reproduced"):
            fn = "".join(ch if ch.isalnum() else "_" for ch in "%s_%s" % (name, what))[:100]
            jr["violations"].append({"kernel": name, "relation": what, "signature": sig, "replay": C.write_replay(PROP, fn, payload), "detail": rep})
        else:
            jr["inconclusive"].append({"query": name + "/" + what, "why": "identity failure not reproduced numerically", "replay": rep})
    jr["samples"].append({"case": name, "identities": [o["name"].split("/")[-1] for o in jr["outcomes"]][:6]})
    solver.close()
    return jr


def replay_accessors(name, seed=0, scale=None):
    res = {"reproduced": False, "parameter_scale": scale}
    fac, D = FACTORIES[name]
    if scale is None:
        # ordinary-scale parameters, then very small ones (reflection vectors of norm ~1e-4: still non-zero, so every
        # identity holds for them too)
        for sc_ in (1.0, 1e-4):
            res = replay_accessors(name, seed, sc_)
            if res.get("reproduced"):
                return res
        return res
    try:
        torch.manual_seed(seed)
        m = fac().double().eval()
        with torch.no_grad():
            for p in m.parameters():
                p.add_(torch.randn_like(p) * 0.7)
                if scale != 1.0 and isinstance(m, OR.HouseholderSequence):
                    p.mul_(scale)
        x = torch.randn(4, D, dtype=torch.float64)
        worst = 0.0
        with torch.no_grad():
            if isinstance(m, OR.HouseholderSequence):
                m.features, m.num_transforms
                Q = torch.eye(D, dtype=torch.float64)
                Q, _ = m.inverse(Q)
                y, lad = m(x)
                import copy as _copy

                M = _copy.deepcopy(m).float().matrix().double()  # (matrix() builds a float32 identity internally)
                worst = max(float((y - x @ Q.t()).abs().max()), float((Q.t() @ Q - torch.eye(D, dtype=torch.float64)).abs().max()), float(lad.abs().max()), float((y - x @ M.t()).abs().max()))
            else:
                W, Wi, lad = m.weight(), m.weight_inverse(), m.logabsdet()
                y, l = m.forward_no_cache(x)
                xi, li = m.inverse_no_cache(y)
                worst = max(
                    float((y - (x @ W.t() + m.bias)).abs().max()),
                    float((W @ Wi - torch.eye(D, dtype=torch.float64)).abs().max()),
                    abs(float(lad) - float(torch.linalg.slogdet(W)[1])),
                    float((xi - x).abs().max()),
                    float((l + li).abs().max()),
                )
                import copy

                m32 = copy.deepcopy(m).float()  # (the combined accessors build a float32 identity internally)
                for acc in ("weight_and_logabsdet", "weight_inverse_and_logabsdet"):
                    if hasattr(m32, acc):
                        A, la = getattr(m32, acc)()
                        ref = W if acc == "weight_and_logabsdet" else Wi
                        dev = max(float((A.double() - ref).abs().max()), abs(float(la) - float(lad)))
                        res["combined_accessor_deviation_float32"] = max(res.get("combined_accessor_deviation_float32", 0.0), dev)
                        if dev > 1e-3 * max(1.0, float(ref.abs().max())):
                            worst = max(worst, dev)
        res["max_deviation"] = worst
        res["reproduced"] = not (worst < 1e-8)
    except Exception as e:  # noqa
        res["exception"] = "%s: %s" % (type(e).__name__, e)
    return res


def job_init(cfg):
    """every constructor-accepted size / initialisation mode yields a usable (finite, invertible) transform."""
    jr = C01.new_jr("initialisation")
    n = 0
    cases = []
    for D in range(1, cfg["maxD"] + 1):
        cases.append(("LULinear", (D,), lambda D=D: LU.LULinear(D, identity_init=True)))
        cases.append(("LULinear/random-init", (D,), lambda D=D: LU.LULinear(D, identity_init=False)))
        cases.append(("NaiveLinear", (D,), lambda D=D: LN.NaiveLinear(D)))
        cases.append(("NaiveLinear/uniform-init", (D,), lambda D=D: LN.NaiveLinear(D, orthogonal_initialization=False)))
        for K in range(1, 2 * D + 3):
            cases.append(("HouseholderSequence", (D, K), lambda D=D, K=K: OR.HouseholderSequence(D, K)))
            cases.append(("QRLinear", (D, K), lambda D=D, K=K: QR.QRLinear(D, num_householder=K)))
            if K % 2 == 0:
                cases.append(("SVDLinear", (D, K), lambda D=D, K=K: SV.SVDLinear(D, num_householder=K)))
                cases.append(("SVDLinear/random-init", (D, K), lambda D=D, K=K: SV.SVDLinear(D, num_householder=K, identity_init=False)))
    for cname, args, fac in cases:
        n += 1
        tag = "%s%s" % (cname, list(args))
        err = None
        try:
            torch.manual_seed(C.SEED + n)
            m = fac().eval()
            D = args[0]
            x = torch.randn(3, D)
            with torch.no_grad():
                y, lad = m(x)
                xi, li = m.inverse(y)
            if not (torch.isfinite(y).all() and torch.isfinite(lad).all() and torch.isfinite(xi).all()):
                err = "non-finite results at initialisation"
            elif float((xi - x).abs().max()) > 1e-3:
                err = "not invertible at initialisation (round-trip error %.3g)" % float((xi - x).abs().max())
        except Exception as e:  # noqa
            err = "constructor / first use raised %s: %s" % (type(e).__name__, str(e)[:100])
        jr["outcomes"].append({"name": "init/" + tag, "kind": "goal", "status": "unsat" if err is None else "sat", "s": 0.0, "expect": "unsat", "detail": err or ""})
        if err is not None:
            sig = {"case": cname.split("/")[0], "degenerate": True}
            fn = "".join(ch if ch.isalnum() else "_" for ch in "init_%s" % tag)[:100]
            payload = {"property": PROP, "kernel": "initialisation", "relation": "usable-at-init", "signature": sig, "case": tag, "error": err, "replay_call": {"fn": "harness.C11:replay_init", "args": {"cname": cname, "args": list(args)}}}
            jr["violations"].append({"kernel": "initialisation", "relation": "usable-at-init", "signature": sig, "replay": C.write_replay(PROP, fn, payload), "detail": {"reproduced": True, "error": err}})
    jr["paths"] = n
    jr["samples"].append({"initialisation cases": n, "example": "HouseholderSequence(features=2, num_transforms=6): forward/inverse finite and mutually inverse at the initial parameters"})
    return jr


def replay_init(cname, args):
    res = {"reproduced": False}
    try:
        torch.manual_seed(0)
        D = args[0]
        if cname.startswith("LULinear"):
            m = LU.LULinear(D, identity_init="random" not in cname)
        elif cname.startswith("NaiveLinear"):
            m = LN.NaiveLinear(D, orthogonal_initialization="uniform" not in cname)
        elif cname.startswith("Householder"):
            m = OR.HouseholderSequence(D, args[1])
        elif cname.startswith("QRLinear"):
            m = QR.QRLinear(D, num_householder=args[1])
        else:
            m = SV.SVDLinear(D, num_householder=args[1], identity_init="random" not in cname)
        m.eval()
        x = torch.randn(3, D)
        with torch.no_grad():
            y, lad = m(x)
            xi, _ = m.inverse(y)
        res["finite"] = bool(torch.isfinite(y).all() and torch.isfinite(xi).all())
        res["roundtrip_err"] = float((xi - x).abs().max()) if res["finite"] else None
        res["reproduced"] = (not res["finite"]) or res["roundtrip_err"] > 1e-3
    except Exception as e:  # noqa
        res["exception"] = "%s: %s" % (type(e).__name__, e)
        res["reproduced"] = True
    return res


def job_dispatch(cfg):
    return job_init(cfg) if cfg["type"] == "init" else job(cfg)


def configs(tier):
    t = 60 if tier == "quick" else 600
    names = QUICK if tier == "quick" else list(FACTORIES)
    cfgs = [{"type": "accessors", "case": n, "timeout": t} for n in names]
    cfgs.append({"type": "init", "maxD": 3 if tier == "quick" else 4})
    return cfgs


job_entry = job_dispatch


def main():
    rep = C.Report(PROP)
    cfgs = configs(C.TIER)
    rep.functions = C.source_hash([LN.Linear, LN.NaiveLinear, LU.LULinear, QR.QRLinear, SV.SVDLinear, OR.HouseholderSequence, torchutils.random_orthogonal])
    rep.bounds = {"accessor_identities": [c["case"] for c in cfgs if c["type"] == "accessors"], "initialisation": "features 1..%d, Householder counts 1..2*features+2, identity and random initialisation" % cfgs[-1]["maxD"]}
    rep.assumptions = ["Householder vectors non-zero and the naive weight non-singular (parameter values for which the map is not defined / not invertible)", "torch.slogdet / lu / lu_solve / inverse / solve_triangular are modelled by their mathematical meaning (cofactor determinant, adjugate inverse, substitution); NaiveLinear's claims are about how nflows uses them", "initialisation is checked by running the real constructors concretely (it depends on no symbolic input)"]
    rep.stubs = ["parameters replaced by symbols"]
    for jr in C.run_jobs(job_dispatch, cfgs):
        rep.add_job(jr)
    sys.exit(rep.finish("accessor identities of the linear family as polynomial identities over fully symbolic parameters (z3 QF_NRA after normalisation); initial states of all constructor-accepted sizes evaluated concretely"))


if __name__ == "__main__":
    main()
