"""C14 - normalisation layers follow their documented life-cycle over every history.

One inductive step on the real `ActNorm` / `BatchNorm`: from an arbitrary symbolic pre-state
(training flag, initialised flag, log_scale / shift, running statistics, weight / bias, momentum in (0,1))
each operation
    train(), eval(), forward(batch), inverse(batch), save + load_state_dict into a fresh instance
runs with the real code and is compared with a reference transition function written from the docstrings.
Claims decided by z3 (std as s >= 0, s^2 = var; -log(std) undone by exp):
  ActNorm   initialisation happens iff (training and not initialised) and only in forward; afterwards that batch
            has per-feature (per-channel) mean 0 and unbiased variance 1; otherwise parameters are untouched;
            outputs == exp(log_scale) * x + shift, inverse is its algebraic inverse; the flag travels in the
            state dict, so a reloaded model does not re-initialise
  BatchNorm training forward normalises with the batch statistics and moves the running statistics by
            r <- (1 - m) r + m * stat; evaluation uses (and does not change) the running statistics; inverse is
            refused in training mode (InverseNotAvailable) and is the algebraic inverse in evaluation mode
"""
import itertools
import random
import sys

import numpy as np
import torch

from harness import common as C
from harness import C01
from harness import transformkit as TK
from symtorch import term as tm, scalars as sc, smt, explore, stubs, poly
from symtorch.scalars import S
from symtorch.tensor import Sym, _obj

from nflows.transforms import normalization as NM
from nflows.transforms.base import InverseNotAvailable

PROP = "C14"


class Ctx:
    def __init__(self, jr, R, solver, name, timeout):
        self.jr, self.R, self.solver, self.name, self.timeout = jr, R, solver, name, timeout
        self.errors = []

    def eq(self, what, a, b, asm=()):
        """term arrays equal (syntactic, else polynomial identity with sqrt reduction, decided by z3)."""
        A, Bv = a.a.reshape(-1), b.a.reshape(-1)
        if A.shape != Bv.shape:
            return self.fail(what, "shape %s vs %s" % (a.a.shape, b.a.shape))
        gs = []
        for x, y in zip(A, Bv):
            if x.t is y.t:
                continue
            g, _ = poly.eq_goal(x.t, y.t)
            gs.append(g)
        if not gs:
            return self.ok(what)
        o = C.prove(self.R, self.solver, self.name + "/" + what, tm.and_(*gs), [list(asm)], self.timeout)
        self.jr["outcomes"].append(o.as_dict())
        if o.status == "unsat":
            return True
        return self.fail(what, "differs (%s)" % o.status, recorded=True)

    def eq_log(self, what, a, b, asm=()):
        A, Bv = a.a.reshape(-1), b.a.reshape(-1)
        if A.shape != Bv.shape:
            return self.fail(what, "shape %s vs %s" % (a.a.shape, b.a.shape))
        gs = []
        for x, y in zip(A, Bv):
            if x.t is y.t:
                continue
            g, _ = poly.eq_goal(sc.t_exp(tm.sub(x.t, y.t)), tm.ONE)
            gs.append(g)
        if not gs:
            return self.ok(what)
        o = C.prove(self.R, self.solver, self.name + "/" + what, tm.and_(*gs), [list(asm)], self.timeout)
        self.jr["outcomes"].append(o.as_dict())
        if o.status == "unsat":
            return True
        return self.fail(what, "log-values differ (%s)" % o.status, recorded=True)

    def ok(self, what):
        self.jr["outcomes"].append({"name": self.name + "/" + what, "kind": "goal", "status": "unsat", "s": 0.0, "expect": "unsat", "rung": "syntactic"})
        return True

    def fail(self, what, err, recorded=False):
        if not recorded:
            self.jr["outcomes"].append({"name": self.name + "/" + what, "kind": "goal", "status": "sat", "s": 0.0, "expect": "unsat", "detail": err})
        self.errors.append((what, err))
        return False

    def check(self, what, cond, err):
        return self.ok(what) if cond else self.fail(what, err)


def per_feature(x):
    """[N, C, ...] -> [C, N*...] arrays of scalars per feature / channel"""
    a = x.a
    if a.ndim == 4:
        return np.moveaxis(a, 1, 0).reshape(a.shape[1], -1)
    return a.T


def batch_stats(x):
    pf = per_feature(x)
    n = pf.shape[1]
    means, vars_ = [], []
    for row in pf:
        tot = row[0]
        for e in row[1:]:
            tot = tot + e
        mean = tot / n
        ss = None
        for e in row:
            d = e - mean
            ss = d * d if ss is None else ss + d * d
        means.append(mean)
        vars_.append(ss / (n - 1))
    return means, vars_, n


def job_actnorm(cfg):
    training, initialized, op, shape = cfg["training"], cfg["initialized"], cfg["op"], tuple(cfg["shape"])
    timeout = cfg["timeout"]
    R = sc.new_registry()
    solver = smt.Z3Proc()
    D = shape[1]
    name = "ActNorm/state(training=%s,initialized=%s)/%s/batch=%s" % (training, initialized, op, list(shape))
    jr = C01.new_jr("ActNorm")
    jr["paths"] = 1
    cx = Ctx(jr, R, solver, name, timeout)
    with stubs.torch_patches():
        R.begin_run()
        m = NM.ActNorm(D)
        TK.symbolize(m)
        torch.nn.Module.train(m, training)
        m.initialized.data = torch.tensor(bool(initialized))
        ls0, sh0 = Sym(m.log_scale.a.copy()), Sym(m.shift.a.copy())
        x = stubs.named_tensor("x", shape)
        means, vars_, n = batch_stats(x)
        asm = [tm.gt(v.t, tm.ZERO) for v in vars_]  # non-constant batch per feature (precondition of the data-dependent init)
        for a in asm:
            pass
        ex = explore.Explorer(R, solver, assumptions=asm, max_paths=4)
        h = {}

        def run():
            if op == "train":
                m.train()
                return None
            if op == "eval":
                m.eval()
                return None
            if op == "forward":
                return m(x)
            if op == "inverse":
                return m.inverse(x)
            if op == "save_load":
                fresh = NM.ActNorm(D)
                TK.symbolize(fresh, prefix="fresh_")
                fresh.load_state_dict(m.state_dict())
                h["fresh"] = fresh
                return None

        res = ex.explore(run)
        if len(res) != 1 or res[0].kind != "return":
            jr["inconclusive"].append({"query": name, "why": "expected one returning path, got %s" % [(r.kind, str(r.exc)[:80]) for r in res]})
            solver.close()
            return jr
        out = res[0].value
        p = res[0].path
        for ob in p.obligations:
            o = C.prove(R, solver, name + "/obl:" + ob.kind, ob.cond, [asm + p.condition(ob.n_dec, ob.n_asm)], timeout, kind="obligation")
            jr["outcomes"].append(o.as_dict())
            if o.status != "unsat":
                cx.fail("obligation:" + ob.kind, o.status, recorded=True)
        init_expected = op == "forward" and training and not initialized
        # ---- reference transition ----
        exp_training = {"train": True, "eval": False}.get(op, training)
        exp_init = initialized or init_expected
        cx.check("training-flag", m.training == exp_training, "training flag is %s" % m.training)
        cx.check("initialized-flag", bool(m.initialized) == exp_init, "initialized flag is %s, documented %s" % (bool(m.initialized), exp_init))
        if init_expected:
            # the batch that triggered the initialisation comes out with mean 0 / unbiased variance 1 per feature
            y, lad = out
            om, ov, _ = batch_stats(y)
            zero = Sym(_obj(np.array([S(tm.ZERO)] * D, dtype=object)))
            one = Sym(_obj(np.array([S(tm.ONE)] * D, dtype=object)))
            cx.eq("post-init-batch-mean==0", Sym(_obj(np.array(om, dtype=object))), zero, asm)
            cx.eq("post-init-batch-unbiased-var==1", Sym(_obj(np.array(ov, dtype=object))), one, asm)
            # and the parameters are what produced those outputs
            scale = m.log_scale.exp()
            ref = (scale.view(1, -1, 1, 1) if len(shape) == 4 else scale.view(1, -1)) * x + (m.shift.view(1, -1, 1, 1) if len(shape) == 4 else m.shift.view(1, -1))
            cx.eq("outputs==scale*x+shift(new-params)", y, ref, asm)
        else:
            same = all(a.t is b.t for a, b in zip(m.log_scale.a.reshape(-1), ls0.a.reshape(-1))) and all(a.t is b.t for a, b in zip(m.shift.a.reshape(-1), sh0.a.reshape(-1)))
            cx.check("parameters-untouched", same, "log_scale / shift changed although no initialisation is documented here")
            if op in ("forward", "inverse"):
                y, lad = out
                sc_ = ls0.exp()
                s4 = (lambda t: t.view(1, -1, 1, 1)) if len(shape) == 4 else (lambda t: t.view(1, -1))
                ref = s4(sc_) * x + s4(sh0) if op == "forward" else (x - s4(sh0)) / s4(sc_)
                cx.eq("outputs==reference", y, ref, asm)
        if op in ("forward", "inverse"):
            y, lad = out
            hw = int(np.prod(shape[2:])) if len(shape) == 4 else 1
            tot = m.log_scale.a[0]
            for e in m.log_scale.a[1:]:
                tot = tot + e
            ref_l = tot * hw if op == "forward" else -(tot * hw)
            refl = Sym(_obj(np.array([ref_l] * shape[0], dtype=object)))
            cx.eq_log("logabsdet==(+-)h*w*sum(log_scale)", lad, refl, asm)
        if op == "save_load":
            fresh = h["fresh"]
            cx.check("flag-travels-in-state-dict", bool(fresh.initialized) == bool(m.initialized), "reloaded model has initialized=%s, saved one %s" % (bool(fresh.initialized), bool(m.initialized)))
            cx.check("parameters-travel", all(a.t is b.t for a, b in zip(fresh.log_scale.a, m.log_scale.a)) and all(a.t is b.t for a, b in zip(fresh.shift.a, m.shift.a)), "reloaded parameters differ")
    jr["transitions"] = 1
    finish(jr, cx, "ActNorm", cfg)
    solver.close()
    return jr


def job_batchnorm(cfg):
    training, op, shape = cfg["training"], cfg["op"], tuple(cfg["shape"])
    timeout = cfg["timeout"]
    R = sc.new_registry()
    solver = smt.Z3Proc()
    D = shape[1]
    name = "BatchNorm/state(training=%s)/%s/batch=%s" % (training, op, list(shape))
    jr = C01.new_jr("BatchNorm")
    jr["paths"] = 1
    cx = Ctx(jr, R, solver, name, timeout)
    with stubs.torch_patches():
        R.begin_run()
        m = NM.BatchNorm(D)
        TK.symbolize(m, buffers=("running_mean", "running_var"), positive_buffers=("running_var",))
        mom = stubs.scalar("momentum", lo=0, hi=1)
        m.momentum = mom
        torch.nn.Module.train(m, training)
        rm0, rv0 = Sym(m.running_mean.a.copy()), Sym(m.running_var.a.copy())
        x = stubs.named_tensor("x", shape)
        means, vars_, n = batch_stats(x)
        asm = []
        ex = explore.Explorer(R, solver, max_paths=4)
        h = {}

        def run():
            if op == "train":
                m.train()
                return None
            if op == "eval":
                m.eval()
                return None
            if op == "forward":
                return m(x)
            if op == "inverse":
                return m.inverse(x)
            if op == "save_load":
                fresh = NM.BatchNorm(D)
                TK.symbolize(fresh, prefix="fresh_", buffers=("running_mean", "running_var"))
                fresh.load_state_dict(m.state_dict())
                h["fresh"] = fresh
                return None
            if op == "load_into_used":
                # a layer that has already been evaluated (and may have memoised something) receives m's state dict
                used_ = NM.BatchNorm(D)
                TK.symbolize(used_, prefix="used_", buffers=("running_mean", "running_var"), positive_buffers=("running_var",))
                used_.eval()
                used_(x)
                used_.load_state_dict(m.state_dict())
                h["used"] = used_
                return used_(x)

        res = ex.explore(run)
        if op == "inverse" and training:
            ok = len(res) == 1 and res[0].kind == "raise" and isinstance(res[0].exc, InverseNotAvailable)
            cx.check("inverse-refused-in-training-mode", ok, "expected InverseNotAvailable, got %s" % [(r.kind, type(r.exc).__name__) for r in res])
            same = all(a.t is b.t for a, b in zip(m.running_mean.a, rm0.a)) and all(a.t is b.t for a, b in zip(m.running_var.a, rv0.a))
            cx.check("running-stats-untouched", same, "running statistics changed by a refused inverse")
            jr["transitions"] = 1
            finish(jr, cx, "BatchNorm", cfg)
            solver.close()
            return jr
        if len(res) != 1 or res[0].kind != "return":
            jr["inconclusive"].append({"query": name, "why": "expected one returning path, got %s" % [(r.kind, str(r.exc)[:80]) for r in res]})
            solver.close()
            return jr
        out = res[0].value
        p = res[0].path
        for ob in p.obligations:
            o = C.prove(R, solver, name + "/obl:" + ob.kind, ob.cond, [p.condition(ob.n_dec, ob.n_asm)], timeout, kind="obligation")
            jr["outcomes"].append(o.as_dict())
            if o.status != "unsat":
                cx.fail("obligation:" + ob.kind, o.status, recorded=True)
        exp_training = {"train": True, "eval": False}.get(op, training)
        cx.check("training-flag", m.training == exp_training, "training flag is %s" % m.training)
        weight = m.weight
        eps = m.eps
        if op == "forward" and training:
            one = S(tm.ONE)
            ref_rm = Sym(_obj(np.array([rm0.a[d] * (one - mom.a[()]) + means[d] * mom.a[()] for d in range(D)], dtype=object)))
            ref_rv = Sym(_obj(np.array([rv0.a[d] * (one - mom.a[()]) + vars_[d] * mom.a[()] for d in range(D)], dtype=object)))
            cx.eq("running_mean<-(1-m)r+m*batch_mean", m.running_mean, ref_rm)
            cx.eq("running_var<-(1-m)r+m*batch_var", m.running_var, ref_rv)
            y, lad = out
            mean_s = Sym(_obj(np.array(means, dtype=object)))
            var_s = Sym(_obj(np.array(vars_, dtype=object)))
            ref = weight * ((x - mean_s) / (var_s + eps).sqrt()) + m.bias
            cx.eq("training-outputs-use-batch-statistics", y, ref)
            used = {v.args[0] for s in y.a.reshape(-1) for v in tm.free_vars(s.t)}
            cx.check("training-outputs-ignore-running-stats", not any(u.startswith("running_") for u in used), "training outputs mention running statistics")
            ref_l = (weight.log() - (var_s + eps).log() * 0.5).sum()
            cx.eq_log("logabsdet", lad, Sym(_obj(np.array([ref_l.a[()]] * shape[0], dtype=object))))
        else:
            same = all(a.t is b.t for a, b in zip(m.running_mean.a, rm0.a)) and all(a.t is b.t for a, b in zip(m.running_var.a, rv0.a))
            cx.check("running-stats-untouched", same, "running statistics changed outside a training-mode forward")
            if op == "forward":
                y, lad = out
                ref = weight * ((x - rm0) / (rv0 + eps).sqrt()) + m.bias
                cx.eq("eval-outputs-use-running-statistics", y, ref)
                # row i depends on row i only
                rows_ok = True
                for i in range(shape[0]):
                    used = {v.args[0] for s in y.a[i].reshape(-1) for v in tm.free_vars(s.t) if v.args[0].startswith("x_")}
                    rows_ok = rows_ok and all(u.split("_")[1] == str(i) for u in used)
                cx.check("eval-outputs-row-wise", rows_ok, "an evaluation-mode output depends on another batch row")
            if op == "inverse":
                y, lad = out
                ref = (rv0 + eps).sqrt() * ((x - m.bias) / weight) + rm0
                cx.eq("eval-inverse==reference", y, ref)
        if op == "load_into_used":
            y, lad = out
            ref = weight * ((x - rm0) / (rv0 + eps).sqrt()) + m.bias
            cx.eq("used-layer-after-load==evaluation-with-the-loaded-statistics", y, ref)
        if op == "save_load":
            fresh = h["fresh"]
            ok = all(a.t is b.t for a, b in zip(fresh.running_mean.a, m.running_mean.a)) and all(a.t is b.t for a, b in zip(fresh.running_var.a, m.running_var.a)) and all(a.t is b.t for a, b in zip(fresh.unconstrained_weight.a, m.unconstrained_weight.a))
            cx.check("state-travels-in-state-dict", ok, "reloaded running statistics / parameters differ")
    jr["transitions"] = 1
    finish(jr, cx, "BatchNorm", cfg)
    solver.close()
    return jr


def finish(jr, cx, cls, cfg):
    jr["samples"].append({"transition": cx.name, "checks": len(jr["outcomes"])})
    for what, err in cx.errors:
        with stubs.real_torch():
            rep = replay(cls, cfg)
        sig = {"cls": cls, "op": cfg["op"], "what": what}
        payload = {"property": PROP, "kernel": cls, "relation": what, "signature": sig, "cfg": cfg, "error": err, "replay_result": rep, "replay_call": {"fn": "harness.C14:replay", "args": {"cls": cls, "cfg": cfg}}}
        if rep.get("reproduced"):
            fn = "".join(ch if ch.isalnum() else "_" for ch in "%s_%s" % (cx.name, what))[:110]
            jr["violations"].append({"kernel": cls, "relation": what, "signature": sig, "replay": C.write_replay(PROP, fn, payload), "detail": rep})
        else:
            jr["inconclusive"].append({"query": cx.name + "/" + what, "why": "reference mismatch not reproduced numerically", "error": err, "replay": rep})


def reference_actnorm(state, op, x):
    """documented behaviour on real tensors: returns (new_state, outputs or None)"""
    training, initialized, ls, sh = state
    out = None
    if op == "train":
        training = True
    elif op == "eval":
        training = False
    elif op in ("forward", "inverse"):
        dims = [0] if x.dim() == 2 else [0, 2, 3]
        if op == "forward" and training and not initialized:
            xs = x if x.dim() == 2 else x.permute(0, 2, 3, 1).reshape(-1, x.shape[1])
            std = xs.std(0)
            ls = -torch.log(std)
            sh = -(xs / std).mean(0)
            initialized = True
        v = (lambda t: t.view(1, -1, 1, 1)) if x.dim() == 4 else (lambda t: t.view(1, -1))
        out = torch.exp(v(ls)) * x + v(sh) if op == "forward" else (x - v(sh)) / torch.exp(v(ls))
    return (training, initialized, ls, sh), out


def replay(cls, cfg, seed=0):
    """lock-step of the real layer against the reference model on a random history that starts in the
    abstract pre-state and applies the operation (plus a closing eval forward)."""
    res = {"reproduced": False}
    try:
        torch.manual_seed(seed)
        shape = tuple(cfg["shape"])
        D = shape[1]
        x = torch.randn(shape, dtype=torch.float64) * 1.7 + 0.4
        if cls == "ActNorm" and cfg.get("op") == "history":
            m = NM.ActNorm(D).double()
            state = (True, False, m.log_scale.detach().clone(), m.shift.detach().clone())
            worst = 0.0
            for op in cfg["history"]:
                xb = torch.randn(shape, dtype=torch.float64) * 1.7 + 0.4
                if op == "train":
                    m.train(); out = None
                elif op == "eval":
                    m.eval(); out = None
                elif op == "snapshot":
                    snap, snap_state, out = m.state_dict(), (state[1], state[2].clone(), state[3].clone()), None
                elif op == "restore":
                    fresh = NM.ActNorm(D).double()
                    fresh.load_state_dict(snap)
                    fresh.train(state[0])
                    m, out = fresh, None
                    state = (state[0], snap_state[0], snap_state[1].clone(), snap_state[2].clone())
                else:
                    with torch.no_grad():
                        out = (m(xb) if op == "forward" else m.inverse(xb))[0]
                state, ref = reference_actnorm(state, op, xb)
                if ref is not None:
                    worst = max(worst, float((out - ref).abs().max()))
                if bool(m.initialized) != state[1]:
                    worst = max(worst, 1.0)
            res["max_deviation"] = worst
            res["reproduced"] = worst > 1e-8
        elif cls == "ActNorm":
            m = NM.ActNorm(D).double()
            with torch.no_grad():
                m.log_scale.copy_(torch.randn(D) * 0.3)
                m.shift.copy_(torch.randn(D))
            m.train(cfg["training"])
            m.initialized.data = torch.tensor(bool(cfg["initialized"]))
            state = (cfg["training"], bool(cfg["initialized"]), m.log_scale.detach().clone(), m.shift.detach().clone())
            worst = 0.0
            for op in [cfg["op"], "eval", "forward"]:
                if op == "save_load":
                    fresh = NM.ActNorm(D).double()
                    fresh.load_state_dict(m.state_dict())
                    fresh.train(m.training)
                    m = fresh
                    out = None
                elif op == "train":
                    m.train(); out = None
                elif op == "eval":
                    m.eval(); out = None
                else:
                    with torch.no_grad():
                        out = (m(x) if op == "forward" else m.inverse(x))[0]
                state, ref = reference_actnorm(state, op, x)
                if ref is not None:
                    worst = max(worst, float((out - ref).abs().max()))
                worst = max(worst, float((m.log_scale - state[2]).abs().max()), float((m.shift - state[3]).abs().max()))
                if bool(m.initialized) != state[1] or m.training != state[0]:
                    worst = max(worst, 1.0)
            res["max_deviation"] = worst
            res["reproduced"] = worst > 1e-8
        else:
            m = NM.BatchNorm(D).double()
            m.train(cfg["training"])
            with torch.no_grad():
                m.running_mean.copy_(torch.randn(D))
                m.running_var.copy_(torch.rand(D) + 0.5)
            rm, rv = m.running_mean.clone(), m.running_var.clone()
            op = cfg["op"]
            worst = 0.0
            if op == "forward":
                y, _ = m(x)
                if cfg["training"]:
                    mean, var = x.mean(0), x.var(0)
                    rm2, rv2 = (1 - m.momentum) * rm + m.momentum * mean, (1 - m.momentum) * rv + m.momentum * var
                    ref = m.weight * (x - mean) / torch.sqrt(var + m.eps) + m.bias
                else:
                    rm2, rv2 = rm, rv
                    ref = m.weight * (x - rm) / torch.sqrt(rv + m.eps) + m.bias
                worst = max(float((y - ref).abs().max()), float((m.running_mean - rm2).abs().max()), float((m.running_var - rv2).abs().max()))
            elif op == "inverse":
                try:
                    y, _ = m.inverse(x)
                    worst = 1.0 if cfg["training"] else float((y - (torch.sqrt(rv + m.eps) * (x - m.bias) / m.weight + rm)).abs().max())
                except InverseNotAvailable:
                    worst = 0.0 if cfg["training"] else 1.0
                worst = max(worst, float((m.running_mean - rm).abs().max()))
            elif op == "save_load":
                fresh = NM.BatchNorm(D).double()
                fresh.load_state_dict(m.state_dict())
                worst = float((fresh.running_mean - rm).abs().max())
            elif op == "load_into_used":
                used_ = NM.BatchNorm(D).double().eval()
                with torch.no_grad():
                    used_(x)
                    used_.load_state_dict(m.state_dict())
                    y, _ = used_(x)
                worst = float((y - (m.weight * (x - rm) / torch.sqrt(rv + m.eps) + m.bias)).abs().max())
            else:
                getattr(m, op)()
                worst = float((m.running_mean - rm).abs().max())
            res["max_deviation"] = worst
            res["reproduced"] = worst > 1e-8
    except Exception as e:  # noqa
        res["exception"] = "%s: %s" % (type(e).__name__, e)
    return res


def validate_random_histories(n, seed):
    """traces validated against the implementation: random histories of the real ActNorm vs the reference model."""
    rng = random.Random(seed)
    ok = bad = 0
    for _ in range(n):
        D = rng.choice([1, 2, 3])
        image = rng.random() < 0.4
        m = NM.ActNorm(D).double()
        state = (True, False, m.log_scale.detach().clone(), m.shift.detach().clone())
        good = True
        for _ in range(7):
            op = rng.choice(["train", "eval", "forward", "inverse", "save_load"])
            x = torch.randn((4, D, 2, 2) if image else (5, D), dtype=torch.float64) * 2 + 1
            if op == "save_load":
                fresh = NM.ActNorm(D).double()
                fresh.load_state_dict(m.state_dict())
                fresh.train(m.training)
                m = fresh
                continue
            if op == "train":
                m.train()
            elif op == "eval":
                m.eval()
            else:
                with torch.no_grad():
                    out = (m(x) if op == "forward" else m.inverse(x))[0]
            state, ref = reference_actnorm(state, op, x)
            if ref is not None and float((out - ref).abs().max()) > 1e-8:
                good = False
            if bool(m.initialized) != state[1]:
                good = False
        ok += good
        bad += not good
    return ok, bad


def job_history(cfg):
    """Bounded histories from the constructor state on ONE object, in lock-step with a reference model kept on the
    same symbolic values: catches state that the abstract state of the inductive step does not know about (a host-side
    flag, a counter, a cached tensor)."""
    ops, shape = cfg["ops"], tuple(cfg["shape"])
    timeout = cfg["timeout"]
    R = sc.new_registry()
    solver = smt.Z3Proc()
    D = shape[1]
    name = "ActNorm/history(%s)/batch=%s" % (",".join(ops), list(shape))
    jr = C01.new_jr("ActNorm")
    jr["paths"] = 1
    cx = Ctx(jr, R, solver, name, timeout)
    with stubs.torch_patches():
        R.begin_run()
        m = NM.ActNorm(D)
        TK.symbolize(m)
        ref = {"training": True, "initialized": False, "ls": Sym(m.log_scale.a.copy()), "sh": Sym(m.shift.a.copy())}
        v4 = (lambda t: t.view(1, -1, 1, 1)) if len(shape) == 4 else (lambda t: t.view(1, -1))
        asm = []
        for step, op in enumerate(ops):
            x = stubs.named_tensor("x%d" % step, shape)
            if op == "train":
                m.train()
                ref["training"] = True
                continue
            if op == "eval":
                m.eval()
                ref["training"] = False
                continue
            if op == "snapshot":
                # what a user keeps for later: the dict the real state_dict() returns (torch hands out references)
                snap = m.state_dict()
                ref_snap = {"initialized": ref["initialized"], "ls": Sym(ref["ls"].a.copy()), "sh": Sym(ref["sh"].a.copy())}
                continue
            if op == "restore":
                # a fresh layer restored from the snapshot stands where the snapshot was taken
                fresh = NM.ActNorm(D)
                TK.symbolize(fresh, prefix="fresh%d_" % step)
                fresh.load_state_dict(snap)
                fresh.train(ref["training"])
                m = fresh
                ref.update(ref_snap)
                ref["ls"], ref["sh"] = Sym(ref_snap["ls"].a.copy()), Sym(ref_snap["sh"].a.copy())
                cx.check("step%d:restore/initialized-flag" % step, bool(m.initialized) == ref["initialized"], "restored flag %s, flag when the snapshot was taken %s" % (bool(m.initialized), ref["initialized"]))
                continue
            means, vars_, n = batch_stats(x)
            will_init = op == "forward" and ref["training"] and not ref["initialized"]
            if will_init:
                asm += [tm.gt(v.t, tm.ZERO) for v in vars_]
            ex = explore.Explorer(R, solver, assumptions=asm, max_paths=4)
            res = ex.explore(lambda: m(x) if op == "forward" else m.inverse(x))
            if len(res) != 1 or res[0].kind != "return":
                jr["inconclusive"].append({"query": name, "why": "step %d (%s): %s" % (step, op, [(r.kind, str(r.exc)[:60]) for r in res])})
                break
            y, lad = res[0].value
            if will_init:
                std = Sym(_obj(np.array(vars_, dtype=object))).sqrt()
                mu = Sym(_obj(np.array(means, dtype=object))) / std
                ref["ls"], ref["sh"], ref["initialized"] = -std.log(), -mu, True
            expect = v4(ref["ls"].exp()) * x + v4(ref["sh"]) if op == "forward" else (x - v4(ref["sh"])) / v4(ref["ls"].exp())
            cx.eq("step%d:%s/outputs==reference" % (step, op), y, expect, asm)
            cx.check("step%d:%s/initialized-flag" % (step, op), bool(m.initialized) == ref["initialized"], "flag %s, reference %s" % (bool(m.initialized), ref["initialized"]))
            cx.eq_log("step%d:%s/log_scale==reference" % (step, op), m.log_scale, ref["ls"], asm)
            cx.eq("step%d:%s/shift==reference" % (step, op), m.shift, ref["sh"], asm)
    jr["transitions"] = len(ops)
    finish(jr, cx, "ActNorm", {"cls": "ActNorm", "history": list(ops), "shape": list(shape), "op": "history", "training": True, "initialized": False})
    solver.close()
    return jr


def job(cfg):
    if cfg["cls"] == "history":
        return job_history(cfg)
    return job_actnorm(cfg) if cfg["cls"] == "ActNorm" else job_batchnorm(cfg)


OPS = ("train", "eval", "forward", "inverse", "save_load")


def configs(tier):
    t = 60 if tier == "quick" else 300
    cfgs = []
    shapes_a = [(2, 1), (3, 2), (2, 2, 1, 2)] if tier == "quick" else [(2, 1), (3, 1), (2, 2), (3, 2), (2, 2, 1, 2), (2, 1, 2, 2)]
    for training, initialized, op in itertools.product((True, False), (True, False), OPS):
        for shape in shapes_a:
            if op not in ("forward", "inverse") and shape != shapes_a[0]:
                continue
            cfgs.append({"cls": "ActNorm", "training": training, "initialized": initialized, "op": op, "shape": list(shape), "timeout": t})
    L = 3 if tier == "quick" else 5
    for n in range(2, L + 1):
        for ops in itertools.product(("train", "eval", "forward", "inverse"), repeat=n):
            if "forward" not in ops or ops[-1] in ("train", "eval"):
                continue
            cfgs.append({"cls": "history", "ops": list(ops), "shape": [2, 1], "timeout": t})
    cfgs.append({"cls": "history", "ops": ["eval", "forward", "train", "forward", "forward"], "shape": [2, 2, 1, 2], "timeout": t})
    # snapshots of the state dict taken at some point and restored into a fresh layer later
    for pre in ((), ("forward",), ("eval", "forward"), ("eval", "forward", "train")):
        for mid in (("forward",), ("forward", "eval"), ("eval",), ("inverse",)):
            for post in (("forward",), ("train", "forward"), ("forward", "forward")):
                cfgs.append({"cls": "history", "ops": list(pre) + ["snapshot"] + list(mid) + ["restore"] + list(post), "shape": [2, 1], "timeout": t})
    shapes_b = [(2, 1), (3, 2)] if tier == "quick" else [(2, 1), (3, 1), (2, 2), (3, 2), (4, 1)]
    for training, op in itertools.product((True, False), OPS):
        for shape in shapes_b:
            if op not in ("forward", "inverse") and shape != shapes_b[0]:
                continue
            cfgs.append({"cls": "BatchNorm", "training": training, "op": op, "shape": list(shape), "timeout": t})
    for training in (True, False):
        for shape in shapes_b:
            cfgs.append({"cls": "BatchNorm", "training": training, "op": "load_into_used", "shape": list(shape), "timeout": t})
    return cfgs


def main():
    rep = C.Report(PROP, level="model_checking")
    cfgs = configs(C.TIER)
    rep.functions = C.source_hash([NM.ActNorm, NM.BatchNorm])
    rep.bounds = {"ActNorm_histories": "every operation sequence of length <= %d over {train, eval, forward, inverse} from the constructor state on one object (plus 48 histories with a state-dict snapshot restored into a fresh layer later), symbolic batches, lock-step with the reference" % (3 if C.TIER == "quick" else 4), "ActNorm": "abstract states training x initialised (4), operations %s, batches %s" % (list(OPS), sorted({tuple(c["shape"]) for c in cfgs if c["cls"] == "ActNorm"})), "BatchNorm": "states training (2), same operations, batches %s, symbolic momentum in (0,1)" % sorted({tuple(c["shape"]) for c in cfgs if c["cls"] == "BatchNorm"})}
    rep.assumptions = ["one inductive step from an arbitrary symbolic state covers histories of every length", "the batch that triggers the data-dependent initialisation is not constant in any feature (its variance is > 0)", "exact real arithmetic; std is the non-negative root of the unbiased variance", "the reference transition functions were written from the docstrings (Glow actnorm, momentum rule)"]
    rep.stubs = ["parameters / running statistics / momentum replaced by symbols"]
    trans = 0
    for jr in C.run_jobs(job, cfgs):
        rep.add_job(jr)
        trans += jr.get("transitions", 0)
    ok, bad = validate_random_histories(20 if C.TIER == "quick" else 200, C.SEED)
    rep.counts["validated"] += ok
    if bad:
        rep.inconclusive.append({"random_histories_deviating_from_reference": bad})
    rep.extra["exhaustive"] = True
    sys.exit(rep.finish("inductive model checking of the normalisation life-cycle: every (abstract state, operation, batch shape) executed with the real code on symbolic state and compared with a reference transition function; identities decided by z3", states=6, transitions=trans))


if __name__ == "__main__":
    main()
