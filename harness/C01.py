"""C01 - forward log-abs-det equals log|det Jacobian| of the map actually computed.

For every case of harness/cases.py (real module, parameters swapped for symbols, one batch row whose inputs
carry unit dual parts) and for the four spline functions called directly with a symbolic box, every
feasible path of the real `forward` is explored and z3 decides

        exp(logabsdet)^2 == det(J)^2          (J = matrix of dual parts of that row's outputs)

together with every side obligation the engine raised on the path (divisors, log / sqrt arguments).
exp() of the log-abs-det term is taken through the exp/log abstraction, so the goal is an identity of rational
functions; it is normalised to `numerator == 0` by symtorch.poly before it is handed to the solver.
"""
import math
import random
import sys

import torch

from harness import common as C
from harness import cases as CS
from harness import splinekit as SK
from harness import transformkit as TK
from symtorch import term as tm, scalars as sc, smt, explore, stubs, poly
from symtorch.tensor import Sym

PROP = "C01"
REL_TOL = tm.const(tm.read_float(1e-6))


def has_enclosed_const(*terms):
    for a in tm.atoms(*terms):
        if a.args[0] in ("exp", "log", "softplus", "sqrt") and len(a.args) == 2 and isinstance(a.args[1], tm.T) and a.args[1].op == "const":
            return True
    return False


def det_goal(E, det):
    """exp(lad)^2 == det^2 as a polynomial identity (exact); only when the normalised numerator is not
    identically zero *and* a numerically enclosed transcendental constant occurs, to relative 1e-9."""
    lhs, rhs = tm.mul(E, E), tm.mul(det, det)
    g, size = poly.eq_goal_reparam(sc.reg(), lhs, rhs)
    if size == 0 or not has_enclosed_const(lhs, rhs):
        return g, "poly%d" % size
    d = tm.sub(lhs, rhs)
    return tm.and_(tm.le(d, tm.mul(REL_TOL, rhs)), tm.le(tm.neg(d), tm.mul(REL_TOL, rhs))), "rel1e-6"


def exp_factors(lad_t):
    """factors of exp(lad): one per atom of the linear form of the log-abs-det term."""
    c0, items = tm.linear_form(lad_t)
    fs = []
    if c0 != 0:
        fs.append(sc.t_exp(tm.const(c0)))
    for c, a in items:
        fs.append(sc.t_exp(tm.scale(c, a)))
    return fs


def grouped_goal(lad_t, J, xvars):
    """Sufficient per-feature form when det(J) is the product of the diagonal: the factors of exp(lad) are
    grouped by the input they belong to and each group is compared with its diagonal entry."""
    n = len(J)
    diag = [J[i][i] for i in range(n)]
    if TK.det_terms(J) is not tm.mul(*diag):
        return None
    active = [i for i in range(n) if not (diag[i].op == "const")]
    groups = {i: [] for i in range(n)}
    for f in exp_factors(lad_t):
        fv = set(tm.free_vars(f))
        cand = [i for i in active if xvars[i] in fv]
        if not cand:
            cand = [i for i in active if set(tm.free_vars(diag[i])) & fv]
        if not cand:
            return None
        groups[max(cand)].append(f)
    goals = []
    total = 0
    for i in range(n):
        G = tm.mul(*groups[i]) if groups[i] else tm.ONE
        g, size = det_goal(G, diag[i])
        goals.append(g)
        total += max(size if isinstance(size, int) else 0, 0) if False else 0
    return tm.and_(*goals)


def handle_outcome(jr, R, o, relation, path, replay_fn, signature):
    jr["outcomes"].append(o.as_dict())
    if o.status == o.expect:
        return
    if o.status == "sat" and o.expect == "unsat":
        leaves = C.leaf_values(R, o.model)
        rep = replay_fn(relation, leaves)
        if not rep.get("reproduced"):
            for cand in C.alternative_leaves(R, path, leaves):
                rep2 = replay_fn(relation, cand)
                if rep2.get("reproduced"):
                    leaves, rep = cand, dict(rep2, leaves_from="perturbed solver model (same path)")
                    break
        if rep.get("reproduced"):
            payload = {"property": PROP, "kernel": jr["kernel"], "relation": relation, "signature": signature, "leaves": leaves, "path": path.describe() if path else None, "replay_result": rep, "replay_case": jr.get("replay_case"),
                       "replay_call": {"fn": "harness.C01:replay_entry", "args": {"kernel": jr["kernel"], "signature": signature, "relation": relation, "leaves": leaves}}}
            fn = "".join(ch if ch.isalnum() else "_" for ch in "%s_%s" % (jr["kernel"], relation))[:120]
            p = C.write_replay(PROP, fn, payload)
            jr["violations"].append({"kernel": jr["kernel"], "relation": relation, "signature": signature, "replay": p, "detail": rep})
        else:
            jr["inconclusive"].append({"query": o.name, "why": "solver model did not reproduce on the real code", "leaves": leaves, "replay": rep})
    elif o.status == "unsat" and o.expect == "sat":
        jr["inconclusive"].append({"query": o.name, "why": "vacuity twin is unsat"})
    else:
        jr["inconclusive"].append({"query": o.name, "status": o.status, "detail": o.detail})


def new_jr(kernel):
    return {"kernel": kernel, "paths": 0, "exception_paths": 0, "outcomes": [], "violations": [], "inconclusive": [], "samples": [], "syntactic": 0, "prune_queries": 0, "validated": 0}


# ---------------------------------------------------------------------------------------------
def job_module(cfg):
    case = CS.by_name(cfg["case"])
    timeout = cfg["timeout"]
    R = sc.new_registry()
    solver = smt.Z3Proc()
    h = {}

    def fn():
        m, params, x, ctx, asm = case.build_symbolic(n=1)
        h.update(m=m, x=x, ctx=ctx, asm=asm)
        for a in asm:
            explore.assume(a)
        with stubs.torch_patches():
            return m(x, ctx) if ctx is not None else m(x)

    ex = explore.Explorer(R, solver, decide_timeout=10.0, max_paths=cfg.get("max_paths", 400))
    results = ex.explore(fn)
    jr = new_jr(case.name)
    jr["replay_case"] = case.name
    jr["paths"] = len(results)
    jr["prune_queries"] = ex.stats["prune_queries"]
    nin = int(math.prod(case.in_shape))
    sig = {"case": case.name}

    def replay_fn(relation, leaves):
        return replay_module(case, relation, leaves)

    twin_done = False
    for i, r in enumerate(results):
        p = r.path
        jr["syntactic"] += sum(1 for n in p.notes if n[0] == "syntactic")
        pname = "%s/path%d" % (case.name, i)
        if r.kind == "notmodelled":
            jr["inconclusive"].append({"path": p.describe(), "notmodelled": str(r.exc), "tb": (r.tb or "")[-600:]})
            continue
        if r.kind == "raise":
            jr["exception_paths"] += 1
            if type(r.exc).__name__ != "InputOutsideDomain":
                jr["inconclusive"].append({"path": p.describe(), "unexpected_exception": "%s: %s" % (type(r.exc).__name__, r.exc), "tb": (r.tb or "")[-600:]})
            continue
        out, lad = r.value
        cond = p.condition()
        for ob in p.obligations:
            o = C.prove(R, solver, "%s/obl:%s" % (pname, ob.kind), ob.cond, [p.condition(ob.n_dec, ob.n_asm)], timeout, kind="obligation")
            handle_outcome(jr, R, o, "obligation:" + ob.kind, p, replay_fn, sig)
        lad_a = lad.a.reshape(-1)
        extra = [s.t for s in lad_a] + [t for s in out.a.reshape(-1) for t in (s.d or {}).values()]
        w = C.witness(R, solver, pname + "/reach", cond, timeout, extra=extra)
        handle_outcome(jr, R, w, "reach", p, replay_fn, sig)
        if lad_a.shape[0] != 1:
            # the log-abs-det must have one entry per batch item
            jr["outcomes"].append({"name": pname + "/lad-shape", "kind": "goal", "status": "sat", "s": 0.0, "expect": "unsat"})
            rep = replay_fn("lad-shape", {})
            if rep.get("reproduced"):
                pth = C.write_replay(PROP, "".join(ch if ch.isalnum() else "_" for ch in case.name) + "_lad_shape", {"property": PROP, "kernel": case.name, "relation": "lad-shape", "replay_case": case.name, "leaves": {}, "replay_result": rep, "replay_call": {"fn": "harness.C01:replay_entry", "args": {"kernel": case.name, "signature": sig, "relation": "lad-shape", "leaves": {}}}})
                jr["violations"].append({"kernel": case.name, "relation": "lad-shape", "signature": sig, "replay": pth, "detail": rep})
            else:
                jr["inconclusive"].append({"query": pname + "/lad-shape", "why": "shape mismatch not reproduced", "replay": rep})
            continue
        J = TK.jacobian(out, nin)
        det = TK.det_terms(J)
        E = sc.t_exp(lad_a[0].t)
        forms = []
        xvars = [s.t for s in h["x"].a[0].reshape(-1)]
        gg = grouped_goal(lad_a[0].t, J, xvars) if nin > 1 else None
        if gg is not None:
            forms.append((cond, gg))
            how = "per-feature"
            goal = gg
        if gg is None or gg is not tm.TRUE:
            goal, how = det_goal(E, det)
            forms.append((cond, goal))
        o = C.prove_forms(R, solver, pname + "/exp(lad)^2==det(J)^2[%s]" % how, forms, timeout, quick_timeout=timeout)
        handle_outcome(jr, R, o, "lad==log|detJ|", p, replay_fn, sig)
        if len(jr["samples"]) < 1:
            jr["samples"].append({"query": o.name, "path": p.describe()[:6], "lad": tm.pretty(lad_a[0].t)[:300], "det": tm.pretty(det)[:300], "status": o.status})
        if not twin_done:
            # vacuity twin: the false claim 2*exp(lad) == |det J| must be refutable on a model of this path
            d2 = tm.sub(tm.scale(4, tm.mul(E, E)), tm.mul(det, det))
            g2 = tm.le(tm.mul(d2, d2), tm.scale(tm.read_float(1e-6), tm.power(det, 4)))
            if w.status == "sat" and C.refuted_by_model(w.model, g2):
                twin_done = True
                jr["outcomes"].append({"name": pname + "/twin:2exp(lad)==|det|", "kind": "twin", "status": "sat", "s": 0.0, "expect": "sat", "detail": "refuted by the solver model of the path condition"})
            else:
                o2 = C.prove(R, solver, pname + "/twin:2exp(lad)==|det|", tm.eq(tm.scale(4, tm.mul(E, E)), tm.mul(det, det)), [cond], min(timeout, 20))
                if o2.status == "sat":
                    twin_done = True
                    jr["outcomes"].append(dict(o2.as_dict(), expect="sat", kind="twin"))
    if not twin_done and any(r.kind == "return" for r in results) and not jr["violations"]:
        jr["inconclusive"].append({"query": case.name + "/twin", "why": "the deliberately false goal exp(lad) == |det|/2 was not refuted on any path"})
    jr["validated"] = validate_module(case, R, results, h, nin, jr, cfg.get("nval", 4))
    solver.close()
    return jr


def validate_module(case, R, results, h, nin, jr, nval):
    """differential validation: symbolic output / lad terms evaluated at random leaves vs the real module."""
    rng = random.Random(C.SEED * 31 + len(case.name))
    ok = 0
    names = sorted({v.args[0] for r in results if r.kind == "return" for v in tm.free_vars(*[s.t for s in r.value[0].a.reshape(-1)], *[c for c in r.path.condition()])})
    hint_terms = []
    for v, hint in R.replay_hints.items():
        hint_terms += list(hint[1]) if isinstance(hint[1], tuple) else [hint[1]]
    names = sorted(set(names) | {v.args[0] for v in tm.free_vars(*hint_terms)})
    uf_used = any(R.is_uf(a.args[0]) for r in results if r.kind == "return" for a in tm.atoms(*[s.t for s in r.value[0].a.reshape(-1)]))
    if uf_used or any(isinstance(mod, (stubs.UFNet, TK.ARStub)) for mod in h["m"].modules()):
        return 0  # stub conditioners have no concrete twin; the op table is validated by the other cases
    for _ in range(nval):
        lv = {}
        for nm in names:
            if nm.startswith(("sm!", "sp!", "sg!")):
                continue
            lv[nm] = rng.uniform(0.2, 0.8) if nm.startswith("x") else rng.uniform(0.3, 1.5)
        env, funcs = C.shortcut_env(R, lv)
        hit = None
        for r in results:
            if r.kind == "return" and C.path_holds(r.path, env, funcs, base=h.get("asm", ())):
                hit = r
                break
        if hit is None:
            continue
        try:
            m, x, ctx = case.build_real(lv)
            with torch.no_grad():
                yr, lr = m(x, ctx) if ctx is not None else m(x)
            ys = [tm.evaluate(s.t, env, funcs) for s in hit.value[0].a.reshape(-1)]
            ls = [tm.evaluate(s.t, env, funcs) for s in hit.value[1].a.reshape(-1)]
        except Exception as e:  # noqa
            jr["inconclusive"].append({"validation_error": case.name, "error": "%s: %s" % (type(e).__name__, e)})
            continue
        yr = yr.reshape(-1).tolist()
        lr = lr.reshape(-1).tolist()
        if len(ys) != len(yr) or any(abs(a - b) > 1e-6 * max(1, abs(b)) for a, b in zip(ys, yr)) or len(ls) != len(lr) or any(abs(a - b) > 1e-6 * max(1, abs(b)) for a, b in zip(ls, lr)):
            jr["inconclusive"].append({"validation_mismatch": case.name, "leaves": lv, "sym": [ys, ls], "real": [yr, lr]})
        else:
            ok += 1
    return ok


def replay_module(case, relation, leaves):
    res = {"reproduced": False}
    try:
        m, x, ctx = case.build_real(leaves)
        if any(isinstance(mod, (stubs.UFNet, TK.ARStub)) for mod in m.modules()):
            _concretise_stubs(m)
        f = (lambda z: m(z, ctx)[0]) if ctx is not None else (lambda z: m(z)[0])
        y, lad = m(x, ctx) if ctx is not None else m(x)
        res["lad"] = lad.detach().reshape(-1).tolist()
        if relation == "lad-shape":
            res["lad_shape"] = list(lad.shape)
            res["reproduced"] = lad.numel() != x.shape[0]
            return res
        J = torch.autograd.functional.jacobian(f, x)
        n = x[0].numel()
        J = J.reshape(x.shape[0], n, x.shape[0], n)[0, :, 0, :]
        sign, lad_ref = torch.linalg.slogdet(J)
        res["slogdet_autograd"] = float(lad_ref)
        if lad.numel() != x.shape[0]:
            res["lad_shape"] = list(lad.shape)
            res["reproduced"] = True
            return res
        lv = float(lad.reshape(-1)[0])
        if relation.startswith("obligation"):
            res["reproduced"] = not (math.isfinite(lv) and bool(torch.isfinite(y).all()))
        else:
            res["reproduced"] = (not math.isfinite(lv)) or abs(lv - float(lad_ref)) > 1e-6 * max(1.0, abs(float(lad_ref)))
    except Exception as e:  # noqa
        res["exception"] = "%s: %s" % (type(e).__name__, e)
        res["reproduced"] = type(e).__name__ != "InputOutsideDomain" and relation.startswith("obligation")
    return res


def _concretise_stubs(m):
    """replace UF stubs by small fixed real networks so that the case can be replayed on real tensors."""
    torch.manual_seed(1234)
    for name, mod in list(m.named_modules()):
        for cname, child in list(mod._modules.items()):
            if isinstance(child, stubs.UFNet):
                mod._modules[cname] = _RealStub(child)
            elif isinstance(child, TK.ARStub):
                mod._modules[cname] = _RealARStub(child)


class _RealStub(torch.nn.Module):
    def __init__(self, uf):
        super().__init__()
        self.uf = uf
        self.w = None
        if hasattr(uf, "hidden_features"):
            self.hidden_features = uf.hidden_features

    def forward(self, inputs, context=None):
        n = inputs.shape[0]
        flat = inputs.reshape(n, -1)
        if context is not None:
            flat = torch.cat([flat, context.reshape(n, -1)], dim=1)
        out_shape = tuple(self.uf._out_shape_fn(tuple(inputs.shape[1:])))
        k = int(math.prod(out_shape))
        if self.w is None:
            g = torch.Generator().manual_seed(7)
            self.w = torch.randn(flat.shape[1], k, generator=g, dtype=inputs.dtype)
            self.b = torch.randn(k, generator=g, dtype=inputs.dtype)
        return torch.tanh(flat @ self.w + self.b).reshape((n,) + out_shape)


class _RealARStub(torch.nn.Module):
    def __init__(self, ar):
        super().__init__()
        self.ar = ar
        if hasattr(ar, "hidden_features"):
            self.hidden_features = ar.hidden_features
        g = torch.Generator().manual_seed(11)
        F, M = ar.features, ar.multiplier
        self.w = torch.randn(F, F * M, generator=g, dtype=torch.float64)
        mask = torch.zeros(F, F * M, dtype=torch.float64)
        for i in range(F):
            for j in range(F):
                if j < i:
                    mask[j, i * M:(i + 1) * M] = 1
        self.w = self.w * mask
        self.b = torch.randn(F * M, generator=g, dtype=torch.float64)

    def forward(self, inputs, context=None):
        out = torch.tanh(inputs.to(self.w.dtype) @ self.w + self.b)
        if context is not None:
            out = out + context.reshape(context.shape[0], -1).sum(1, keepdim=True)
        return out.to(inputs.dtype)


# ---------------------------------------------------------------------------------------------
def job_spline(cfg):
    SK.USE_FLOORS[0] = bool(cfg.get("floors"))
    """the spline functions called directly, with a symbolic (non-default) box."""
    kind, K, mode, box = cfg["kind"], cfg["K"], cfg["mode"], cfg["box"]
    timeout = cfg["timeout"]
    R = sc.new_registry()
    solver = smt.Z3Proc()
    ex = explore.Explorer(R, solver, decide_timeout=10.0)
    h = {}

    def fn():
        x, params, bx = SK.sym_setup(kind, K, mode, box=box)
        h["x"], h["bx"] = x, bx
        with stubs.torch_patches():
            return SK.call(kind, mode, x, params, bx, inverse=False)

    results = ex.explore(fn)
    kernel = "%s_spline/%s" % (kind, mode)
    jr = new_jr(kernel)
    jr["paths"] = len(results)
    jr["prune_queries"] = ex.stats["prune_queries"]
    sig = {"K": K, "box": box, "floors": bool(cfg.get("floors"))}
    xt = h["x"].a[0].t

    def replay_fn(relation, leaves):
        return replay_spline(kind, K, mode, relation, leaves)

    twin_done = False
    for i, r in enumerate(results):
        p = r.path
        jr["syntactic"] += sum(1 for n in p.notes if n[0] == "syntactic")
        pname = "%s/K=%d/box=%s/path%d" % (kernel, K, box, i)
        if r.kind == "notmodelled":
            jr["inconclusive"].append({"path": p.describe(), "notmodelled": str(r.exc)})
            continue
        if r.kind == "raise":
            jr["exception_paths"] += 1
            if type(r.exc).__name__ != "InputOutsideDomain":
                jr["inconclusive"].append({"path": p.describe(), "unexpected_exception": "%s: %s" % (type(r.exc).__name__, r.exc)})
            continue
        out, lad = r.value
        y, l = out.a[0], lad.a[0]
        cond = p.condition()
        for ob in p.obligations:
            o = C.prove(R, solver, "%s/obl:%s" % (pname, ob.kind), ob.cond, [p.condition(ob.n_dec, ob.n_asm)], timeout, kind="obligation")
            handle_outcome(jr, R, o, "obligation:" + ob.kind, p, replay_fn, sig)
        w = C.witness(R, solver, pname + "/reach", cond, timeout, extra=[l.t] + list((y.d or {}).values()))
        handle_outcome(jr, R, w, "reach", p, replay_fn, sig)
        dy = (y.d or {}).get(0, tm.ZERO)
        E = sc.t_exp(l.t)
        goal, how = det_goal(E, dy)
        o = C.prove(R, solver, pname + "/exp(lad)^2==(dy/dx)^2[%s]" % how, goal, [p.assumed, cond], timeout)
        handle_outcome(jr, R, o, "lad==log|dy/dx|", p, replay_fn, sig)
        if len(jr["samples"]) < 1:
            jr["samples"].append({"query": o.name, "path": p.describe(), "status": o.status})
        if not twin_done:
            d2 = tm.sub(tm.scale(4, tm.mul(E, E)), tm.mul(dy, dy))
            g2 = tm.le(tm.mul(d2, d2), tm.scale(tm.read_float(1e-6), tm.power(dy, 4)))
            if C.refuted_by_model(w.model, g2):
                twin_done = True
                jr["outcomes"].append({"name": pname + "/twin", "kind": "twin", "status": "sat", "s": 0.0, "expect": "sat", "detail": "refuted by the solver model of the path condition"})
    if not twin_done:
        jr["inconclusive"].append({"query": kernel + "/twin", "why": "false goal not refuted"})
    solver.close()
    return jr


def replay_spline(kind, K, mode, relation, leaves):
    res = {"reproduced": False}
    try:
        x, params, bx = SK.real_args(kind, K, mode, leaves)
        y, lad, g = SK.autograd_derivative(kind, mode, x, params, bx, False)
        res.update({"x": float(x[0]), "y": float(y[0]), "lad": float(lad[0]), "log_dy_dx": math.log(abs(float(g[0]))) if float(g[0]) != 0 else None, "box": {k: float(v) for k, v in bx.items()}})
        if relation.startswith("obligation"):
            res["reproduced"] = not (math.isfinite(res["y"]) and math.isfinite(res["lad"]))
        else:
            res["reproduced"] = res["log_dy_dx"] is None or not math.isfinite(res["lad"]) or abs(res["lad"] - res["log_dy_dx"]) > 1e-6 * max(1.0, abs(res["log_dy_dx"]))
    except Exception as e:  # noqa
        res["exception"] = "%s: %s" % (type(e).__name__, e)
        res["reproduced"] = relation.startswith("obligation") and type(e).__name__ != "InputOutsideDomain"
    return res


def replay_entry(kernel, signature, relation, leaves):
    SK.USE_FLOORS[0] = bool(signature.get("floors"))
    if "case" in signature:
        return replay_module(CS.by_name(signature["case"]), relation, leaves)
    kind, mode = kernel.split("_spline/")
    return replay_spline(kind, signature["K"], mode, relation, leaves)


def job(cfg):
    return job_spline(cfg) if cfg["type"] == "spline" else job_module(cfg)


# thorough-tier cases whose identity is a polynomial of > 50 000 terms that nlsat does not finish in 600 s (measured)
BUGHUNT_CASES = ("CompositeCDFTransform/Sigmoid+RQ",)


def configs(tier):
    t = 60 if tier == "quick" else 600
    cfgs = []
    Ks = (1, 2) if tier == "quick" else (1, 2, 3)
    for kind in SK.KINDS:
        for K in Ks:
            for mode, box in (("box", "sym"), ("box", "unit"), ("tails", "sym")):
                if kind == "quadratic" and mode == "tails" and K == 1:
                    continue
                if box == "unit" and tier == "quick" and K == 1:
                    continue
                cfgs.append({"type": "spline", "kind": kind, "K": K, "mode": mode, "box": box, "timeout": t if K < 3 else 300, "bughunt": K == 3 and kind != "linear"})
    for kind in ("rq", "quadratic", "cubic"):
        cfgs.append({"type": "spline", "kind": kind, "K": 2, "mode": "box", "box": "sym", "floors": True, "timeout": t})
    for c in CS.cases_for(tier, with_history=True):
        cfgs.append({"type": "module", "case": c.name, "timeout": t, "nval": 4, "bughunt": c.name in BUGHUNT_CASES})
    return cfgs


def main():
    rep = C.Report(PROP)
    cfgs = configs(C.TIER)
    from nflows.transforms import base, coupling, autoregressive, linear, lu, qr, svd, orthogonal, conv, normalization, nonlinearities, standard, permutations, reshape
    from nflows.utils import torchutils

    rep.functions = C.source_hash(SK.ENCODED + [coupling.CouplingTransform, coupling.AffineCouplingTransform, coupling.PiecewiseCouplingTransform, autoregressive.AutoregressiveTransform, autoregressive.MaskedAffineAutoregressiveTransform, linear.Linear, linear.NaiveLinear, lu.LULinear, qr.QRLinear, svd.SVDLinear, orthogonal.HouseholderSequence, conv.OneByOneConvolution, normalization.BatchNorm, normalization.ActNorm, nonlinearities, standard.PointwiseAffineTransform, permutations.Permutation, reshape.SqueezeTransform, torchutils.sum_except_batch])
    rep.bounds = {
        "cases": [c["case"] for c in cfgs if c["type"] == "module"],
        "spline_functions": "linear/quadratic/cubic/rational-quadratic, bins %s, symbolic box and tail bound, unit box" % sorted({c["K"] for c in cfgs if c["type"] == "spline"}),
        "batch": "one row; features <= 3 (<= 4 elements for image cases)",
        "arithmetic": "exact reals",
        "per_query_timeout_s": cfgs[0]["timeout"],
    }
    rep.assumptions = [
        "real arithmetic; rounding outside the claim",
        "conditioner networks are uninterpreted functions (with uninterpreted partial derivatives) of exactly the tensors they are handed",
        "autoregressive conditioners are replaced by a stub with the strictly-triangular dependency pattern that C06 establishes for MADE",
        "Sigmoid temperature > 0, PointwiseAffine scale != 0 (constructor check), BatchNorm running_var >= 0",
        "UMNN transforms (external quadrature of a network) and BatchNorm in training mode are outside the claim",
        "composition (sum over the parts) is C08's assertion",
    ]
    rep.stubs = ["UFNet conditioner", "ARStub autoregressive conditioner", "torch.linspace exact", "torch.as_tensor pass-through"]
    for jr in C.run_jobs(job, cfgs):
        rep.add_job(jr)
    sys.exit(rep.finish("bounded symbolic verification of exp(logabsdet)^2 == det(J)^2 per path of the real forward, J from dual numbers carried through the real code; identities normalised to polynomial form and decided by z3"))


if __name__ == "__main__":
    main()
