"""Shared harness machinery: query discharge with hard timeouts, model inversion, replay files,
known findings, evidence files, exit codes.

Exit codes: 0 held on everything explored (possibly KNOWN-FINDING lines); 1 violation not listed in
known_findings.json (a `VIOLATION property=<id> replay=<path>` line is printed, only after the counterexample
was reproduced on the real code with real tensors); 2 inconclusive / harness error (never reported as a pass).
"""
import hashlib
import inspect
import json
import math
import multiprocessing as mp
import os
import sys
import time
import traceback
from fractions import Fraction

ROOT = os.path.dirname(os.path.dirname(os.path.abspath(__file__)))
if ROOT not in sys.path:
    sys.path.insert(0, ROOT)

from symtorch import term as tm  # noqa: E402
from symtorch import scalars as sc  # noqa: E402
from symtorch import smt  # noqa: E402
from symtorch import explore  # noqa: E402

EVIDENCE_DIR = os.environ.get("VERIF_EVIDENCE_DIR") or os.path.join(ROOT, "evidence")  # (seeded-change runs redirect it so that evidence of a mutated tree is never committed)
REPLAY_DIR = os.path.join(ROOT, "replays")
KNOWN_FILE = os.path.join(ROOT, "known_findings.json")

if os.environ.get("VERIF_DUMP"):
    import faulthandler

    faulthandler.dump_traceback_later(int(os.environ["VERIF_DUMP"]), repeat=False)

TIER = os.environ.get("VERIF_TIER", "quick")
SEED = int(os.environ.get("VERIF_SEED", "0") or 0)
NPROC = int(os.environ.get("VERIF_NPROC", "16"))


# ----------------------------------------------------------------------------------------------
# solving

class Outcome:
    def __init__(self, name, kind, status, seconds, rung=None, model=None, detail=None, expect="unsat"):
        self.name, self.kind, self.status, self.seconds = name, kind, status, seconds
        self.rung, self.model, self.detail, self.expect = rung, model, detail, expect

    def as_dict(self):
        d = {"name": self.name, "kind": self.kind, "status": self.status, "s": round(self.seconds, 3), "expect": self.expect}
        if self.rung is not None:
            d["rung"] = self.rung
        if self.detail:
            d["detail"] = self.detail
        return d


def check_sat(reg, solver, assertions, timeout, logic=None, want_model=True, extra=()):
    script, vterms, names = smt.build_script(reg, assertions, logic=logic, want_model=want_model, timeout_ms=int(timeout * 1000), extra_values=extra)
    st, model_text, secs = solver.check(script, names if want_model else (), timeout_s=timeout + 3)
    model = smt.parse_model(model_text, vterms, names) if st == "sat" and want_model else None
    if st == "error":
        model = model_text
        if os.environ.get("VERIF_DEBUG"):
            with open("/tmp/verif_error_%d.smt2" % os.getpid(), "w") as f:
                f.write(script)
    return st, model, secs, script


def with_margin(cond, margin):
    """a sufficient condition for `cond` in which every real inequality holds with room to spare (t <= 0 becomes
    t + margin <= 0, t > 0 becomes t - margin > 0 ...); equalities and Boolean structure are kept.  Used only to pick a
    *robust* counterexample (one that survives the float rounding of the replay) - never to decide a goal."""
    m = tm.const(tm.read_float(margin))

    def go(c, pos):
        if c.op == "not":
            return tm.not_(go(c.args[0], not pos))
        if c.op in ("and", "or"):
            return (tm.and_ if c.op == "and" else tm.or_)(*[go(a, pos) for a in c.args])
        if c.op in ("le0", "lt0") and c.args[0].sort == "R":
            t = c.args[0]
            f = tm.le0 if c.op == "le0" else tm.lt0
            return f(tm.add(t, m)) if pos else f(tm.sub(t, m))
        return c

    return go(cond, True)


def robust_model(reg, solver, assertions, timeout, margins=(1e-2, 1e-4)):
    """a model of the assertions that also satisfies them with a margin, if there is one (else None)."""
    for mg in margins:
        st, model, _, _ = check_sat(reg, solver, list(assertions) + [with_margin(a, mg) for a in assertions], timeout)
        if st == "sat":
            return model
    return None


def prove(reg, solver, name, goal, rungs, timeout, kind="goal", logic=None):
    """Show `goal` (Bool term) valid under assumptions.  `rungs` is a list of assumption lists, weakest
    (fewest assumptions) first: the first unsat wins (fewer assumptions is the stronger statement); only a
    sat under the full (last) rung is a counterexample candidate."""
    neg = tm.not_(goal)
    if neg is tm.FALSE:
        return Outcome(name, kind, "unsat", 0.0, rung="syntactic")
    total = 0.0
    last = None
    for i, asm in enumerate(rungs):
        final = i == len(rungs) - 1
        st, model, secs, script = check_sat(reg, solver, list(asm) + [neg], timeout, logic=logic, want_model=final)
        total += secs
        if st == "unsat":
            return Outcome(name, kind, "unsat", total, rung=i)
        last = (st, model, script)
        if st == "error":
            return Outcome(name, kind, "error", total, rung=i, detail=str(model)[:300])
    st, model, script = last
    if st == "sat":
        return Outcome(name, kind, "sat", total, rung=len(rungs) - 1, model=model)
    return Outcome(name, kind, "unknown", total, rung=len(rungs) - 1, detail=st)


def prove_forms(reg, solver, name, forms, timeout, kind="goal", logic=None, quick_timeout=None):
    """forms: [(assumptions, goal)], each one a sound way to conclude the claim (generalisations first),
    the last one exact.  First unsat wins; only a sat of the exact form is a counterexample candidate."""
    total = 0.0
    qt = quick_timeout or min(timeout, 10.0)
    for i, form in enumerate(forms):
        asm, goal = form[0], form[1]
        exact = len(form) > 2 and form[2]
        final = i == len(forms) - 1
        o = prove(reg, solver, name, goal, [asm], timeout if (final or exact) else qt, kind=kind, logic=logic)
        total += o.seconds
        if o.status == "unsat":
            o.seconds = total
            o.rung = "form%d/%d" % (i, len(forms) - 1)
            return o
        if final:
            o.seconds = total
            return o
    raise ValueError("no formulation")


def refuted_by_model(model, goal, tol=1e-6):
    """True when the (false) goal evaluates to false under a solver model of the path condition: the model
    is then a witness that the goal can fail, i.e. the twin query is `sat`."""
    env = {}
    for t, v in (model or {}).items():
        env[t] = float(v) if not isinstance(v, bool) else v
    try:
        return not tm.evaluate(goal, env, {"root": lambda b, q: b ** (1.0 / q)})
    except (KeyError, ZeroDivisionError, ValueError, OverflowError):
        return False


class Cuts:
    """Lazy cuts for named quotients (scalars.DEFINE_SQRT_QUOTIENTS): bounds lemmas about a quotient are proven
    in the exact encoding, later goals are first tried with the quotient as a free variable that keeps only
    the proven bounds (a generalisation), then in the exact encoding."""

    def __init__(self, reg, solver, cond, lemma_timeout=10.0):
        self.reg, self.solver = reg, solver
        self.cond = list(cond)
        self.cond_x = [sc.expand_quotients(c) for c in self.cond]
        self.lemmas = {}
        self.lemma_timeout = lemma_timeout
        self.log = []

    def lemmas_for(self, rho):
        if rho in self.lemmas:
            return self.lemmas[rho]
        q = sc.expand_quotients(rho)
        out = []
        for nm, g, gx in (
            (">=0", tm.ge(rho, tm.ZERO), tm.ge(q, tm.ZERO)),
            ("<=1", tm.le(rho, tm.ONE), tm.le(q, tm.ONE)),
            ("<=0", tm.le(rho, tm.ZERO), tm.le(q, tm.ZERO)),
        ):
            if nm == "<=0" and len(out) == 2:
                continue
            o = prove(self.reg, self.solver, "lemma:%s%s" % (rho.args[0], nm), gx, [self.cond_x], self.lemma_timeout, kind="lemma")
            self.log.append(o)
            if o.status == "unsat":
                out.append(g)
        self.lemmas[rho] = out
        return out

    def prove(self, name, goal, cond, timeout, kind="goal"):
        defs = getattr(self.reg, "quot_defs", {})
        rhos = [v for v in tm.free_vars(goal, *cond) if v in defs]
        forms = []
        if rhos:
            lem = []
            for r in rhos:
                lem += self.lemmas_for(r)
            forms.append((list(cond) + lem, goal))
        forms.append(([sc.expand_quotients(c) for c in cond], sc.expand_quotients(goal)))
        return prove_forms(self.reg, self.solver, name, forms, timeout, kind=kind, quick_timeout=min(timeout, 20))


def witness(reg, solver, name, assertions, timeout, logic=None, extra=()):
    """Vacuity / reachability twin: the assertions must be satisfiable.  `extra` terms get model values too."""
    st, model, secs, _ = check_sat(reg, solver, assertions, timeout, logic=logic, want_model=True, extra=extra)
    return Outcome(name, "twin", st, secs, model=model, expect="sat")


# ----------------------------------------------------------------------------------------------
# model inversion: solver model -> values of the raw leaves the real code takes

def _fl(v):
    if isinstance(v, bool):
        return v
    return float(v)


def leaf_values(reg, model):
    """Invert the softmax / softplus / sigmoid variable shortcuts (exact: each raw parameter occurs only
    under that one activation) and read every other variable from the model."""
    vals = {}
    if not model:
        return vals
    for t, v in model.items():
        if t.op == "var":
            vals[t.args[0]] = _fl(v)
    out = dict(vals)
    for v, hint in reg.replay_hints.items():
        name = v.args[0]
        if name not in vals:
            continue
        kind = hint[0]
        try:
            if kind == "softmax":
                u_terms, vs = hint[1], hint[2]
                j = vs.index(v)
                p = max(vals[name], 1e-300)
                target = math.log(p)
                _invert_affine(u_terms[j], target, out)
            elif kind == "softplus":
                p = vals[name]
                target = math.log(math.expm1(p)) if p < 30 else p
                _invert_affine(hint[1], target, out)
            elif kind == "sigmoid":
                p = min(max(vals[name], 1e-300), 1 - 1e-16)
                _invert_affine(hint[1], math.log(p) - math.log1p(-p), out)
        except (ValueError, OverflowError):
            pass
    return out


def _invert_affine(u, target, out):
    c0, items = tm.linear_form(u)
    if len(items) != 1:
        return
    c, a = items[0]
    if a.op == "var":
        out[a.args[0]] = (target - float(c0)) / float(c)
    elif a.op == "app":
        out["uf:" + tm.pretty(a)] = (target - float(c0)) / float(c)


# ----------------------------------------------------------------------------------------------
# known findings / replays / evidence

def load_known():
    if not os.path.exists(KNOWN_FILE):
        return {"findings": [], "fixed": []}
    with open(KNOWN_FILE) as f:
        return json.load(f)


def match_known(prop, finding):
    """finding: dict with 'kernel', 'relation' and 'signature' (dict).  A known entry matches when the
    property, kernel and relation are equal and every key of its signature equals the finding's."""
    for k in load_known().get("findings", []):
        if k.get("property") != prop or k.get("kernel") != finding.get("kernel"):
            continue
        if k.get("relation") != finding.get("relation"):
            continue
        sig = k.get("signature", {})
        fsig = finding.get("signature", {})
        if all(fsig.get(a) == b for a, b in sig.items()):
            return k
    return None


def write_replay(prop, n, payload):
    d = os.path.join(REPLAY_DIR, prop)
    os.makedirs(d, exist_ok=True)
    path = os.path.join(d, "%s.json" % n)
    with open(path, "w") as f:
        json.dump(payload, f, indent=1, sort_keys=True, default=str)
    return path


def source_hash(objs):
    out = {}
    for o in objs:
        try:
            src = inspect.getsource(o)
            nm = getattr(o, "__module__", "") + "." + getattr(o, "__qualname__", getattr(o, "__name__", str(o)))
            out[nm] = hashlib.sha256(src.encode()).hexdigest()[:12]
        except (OSError, TypeError):
            out[str(o)] = "unavailable"
    return out


class Report:
    """Accumulates what one check run covered and turns it into the evidence file + exit code."""

    def __init__(self, prop, level="other"):
        self.prop = prop
        self.level = level
        self.t0 = time.time()
        self.jobs = []
        self.violations = []  # reproduced, not known
        self.known = []  # reproduced, listed
        self.inconclusive = []
        self.bughunt_undecided = []
        self.bughunt_jobs = 0
        self.functions = {}
        self.bounds = {}
        self.assumptions = []
        self.stubs = []
        self.samples = []
        self.extra = {}
        self.counts = {"paths": 0, "queries": 0, "unsat": 0, "sat_expected": 0, "syntactic": 0, "solver_s": 0.0, "prune_queries": 0, "validated": 0, "exception_paths": 0}

    def add_job(self, jr):
        self.jobs.append(jr)
        c = self.counts
        c["paths"] += jr.get("paths", 0)
        c["exception_paths"] += jr.get("exception_paths", 0)
        c["prune_queries"] += jr.get("prune_queries", 0)
        c["validated"] += jr.get("validated", 0)
        c["syntactic"] += jr.get("syntactic", 0)
        for o in jr.get("outcomes", []):
            c["queries"] += 1
            c["solver_s"] += o.get("s", 0.0)
            if o["status"] == "unsat" and o.get("expect", "unsat") == "unsat":
                c["unsat"] += 1
            elif o["status"] == "sat" and o.get("expect") == "sat":
                c["sat_expected"] += 1
        for v in jr.get("violations", []):
            k = match_known(self.prop, v)
            if k is not None:
                self.known.append((k, v))
            else:
                self.violations.append(v)
        for i in jr.get("inconclusive", []):
            self.inconclusive.append(i)
        for i in jr.get("bughunt_undecided", []):
            self.bughunt_undecided.append(i.get("query", str(i))[:160])
        if isinstance(jr.get("cfg"), dict) and (jr["cfg"].get("bughunt") or (isinstance(jr["cfg"].get("cfg"), dict) and jr["cfg"]["cfg"].get("bughunt"))):
            self.bughunt_jobs += 1
        for s in jr.get("samples", []):
            if len(self.samples) < 12:
                self.samples.append(s)

    def finish(self, explanation, states=None, transitions=None):
        wall = time.time() - self.t0
        c = self.counts
        cov = {
            "explanation": explanation,
            "functions_encoded": self.functions,
            "bounds": self.bounds,
            "paths_explored": c["paths"],
            "exception_paths": c["exception_paths"],
            "queries_discharged": c["queries"],
            "queries_unsat": c["unsat"],
            "vacuity_twins_sat": c["sat_expected"],
            "obligations_discharged_syntactically": c["syntactic"],
            "path_feasibility_queries": c["prune_queries"],
            "solver_seconds": round(c["solver_s"], 2),
            "traces_validated_against_impl": c["validated"],
            "stubs": self.stubs,
            "inconclusive": self.inconclusive[:20],
            "bug_hunting_only": {"jobs": self.bughunt_jobs, "undecided_queries": len(self.bughunt_undecided), "which": self.bughunt_undecided[:30], "meaning": "configurations beyond the bound for which verdicts are claimed; a replayed sat is reported as a violation, undecided queries are listed here and claim nothing"},
            "known_findings_reported": [k.get("id") for k, _ in self.known],
            "samples": self.samples or ["(no samples recorded)"],
            "evaluations": c["queries"] + c["syntactic"],
            "distinct_nontrivial": c["queries"],
            "rule": "one evaluation per SMT query (goal, side obligation or vacuity twin) or syntactically discharged obligation; non-trivial = needed a solver call",
            "obligations": c["queries"],
            "discharged": c["unsat"] + c["sat_expected"],
            "solver": smt.Z3_BIN,
        }
        cov.update(self.extra)
        if states is not None:
            cov["states"] = states
            cov["transitions"] = transitions
        ev = {
            "property_id": self.prop,
            "tier": TIER if TIER in ("quick", "thorough") else "quick",
            "seed": SEED,
            "level": self.level,
            "coverage": cov,
            "assumptions": self.assumptions,
            "wall_s": round(wall, 2),
            "violations": len(self.violations),
        }
        os.makedirs(EVIDENCE_DIR, exist_ok=True)
        with open(os.path.join(EVIDENCE_DIR, "%s.json" % self.prop), "w") as f:
            json.dump(ev, f, indent=1, default=str)
        seen = set()
        for k, v in self.known:
            if k.get("id") in seen:
                continue
            seen.add(k.get("id"))
            print("KNOWN-FINDING: property=%s %s" % (self.prop, k.get("what", k.get("id"))))
        for v in self.violations:
            print("VIOLATION property=%s replay=%s" % (self.prop, v.get("replay")))
            print("  kernel=%s relation=%s signature=%s" % (v.get("kernel"), v.get("relation"), json.dumps(v.get("signature", {}), sort_keys=True)))
        print(
            "%s tier=%s paths=%d queries=%d unsat=%d twins_sat=%d syntactic=%d inconclusive=%d violations=%d known=%d wall=%.1fs solver=%.1fs"
            % (self.prop, TIER, c["paths"], c["queries"], c["unsat"], c["sat_expected"], c["syntactic"], len(self.inconclusive), len(self.violations), len(self.known), wall, c["solver_s"])
        )
        slow = sorted(((j.get("job_s", 0), str(j.get("kernel", j.get("cfg")))) for j in self.jobs), reverse=True)[:6]
        print("slowest jobs: " + "; ".join("%s %.0fs" % (k, t) for t, k in slow))
        if self.violations:
            return 1
        if self.inconclusive:
            for i in self.inconclusive[:15]:
                print("INCONCLUSIVE: %s" % (i,))
            return 2
        return 0


# ----------------------------------------------------------------------------------------------
# job pool

def _run_job(args):
    fn, cfg = args
    t0 = time.time()
    try:
        jr = fn(cfg)
    except BaseException as e:  # noqa
        jr = {"inconclusive": [{"job": str(cfg), "error": "%s: %s" % (type(e).__name__, e), "tb": traceback.format_exc()[-1500:]}]}
    jr.setdefault("cfg", cfg)
    jr["job_s"] = round(time.time() - t0, 2)
    if isinstance(cfg, dict) and (cfg.get("bughunt") or (isinstance(cfg.get("cfg"), dict) and cfg["cfg"].get("bughunt"))):
        # a configuration beyond the bound for which verdicts are claimed (e.g. three spline bins): run for bug hunting
        # only - a `sat` that replays is still a VIOLATION, an undecided query (unknown / timeout) is counted apart and
        # does not make the check inconclusive; nothing is claimed to hold for such a configuration
        # (also candidates that did not replay, undecided path feasibility ...: nothing is claimed for such a job)
        jr["bughunt_undecided"] = list(jr.get("inconclusive", []))
        jr["inconclusive"] = []
    return jr


def run_jobs(fn, cfgs, nproc=None):
    nproc = nproc or NPROC
    cfgs = list(cfgs)
    if not cfgs:
        return []
    if nproc <= 1 or len(cfgs) == 1 or os.environ.get("VERIF_SERIAL"):
        return [_run_job((fn, c)) for c in cfgs]
    ctx = mp.get_context("fork")
    out = []
    prog = os.environ.get("VERIF_PROGRESS")
    # no maxtasksperchild and close()+join() instead of terminate(): Pool.terminate() can deadlock on the task
    # queue lock when workers are being recycled (observed with 200+ short jobs)
    pool = ctx.Pool(min(nproc, len(cfgs)), initializer=smt.die_with_parent)
    try:
        for jr in pool.imap_unordered(_run_job, [(fn, c) for c in cfgs], chunksize=1):
            out.append(jr)
            if prog:
                sys.stderr.write("[%d/%d] %.0fs %s inconclusive=%d violations=%d\n" % (len(out), len(cfgs), jr.get("job_s", 0), json.dumps(jr.get("cfg"))[:150], len(jr.get("inconclusive", [])), len(jr.get("violations", []))))
                sys.stderr.flush()
    finally:
        pool.close()
        pool.join()
    return out


def main_exit(code):
    sys.stdout.flush()
    os._exit(code) if False else sys.exit(code)


# ----------------------------------------------------------------------------------------------
# differential validation of the encoding against the real implementation

def shortcut_env(reg, leaves):
    """Values of the shortcut variables (softmax simplex / softplus / sigmoid variables) implied by raw
    leaf values, so that symbolic output terms can be evaluated and compared with the real function."""
    env = dict(leaves)
    funcs = {"root": lambda b, q: b ** (1.0 / q)}
    done = set()
    for v, hint in reg.replay_hints.items():
        if v in done:
            continue
        kind = hint[0]
        try:
            if kind == "softmax":
                us = [tm.evaluate(u, env, funcs) for u in hint[1]]
                m = max(us)
                es = [math.exp(u - m) for u in us]
                tot = sum(es)
                for vv, e in zip(hint[2], es):
                    env[vv.args[0]] = e / tot
                    done.add(vv)
            elif kind == "softplus":
                u = tm.evaluate(hint[1], env, funcs)
                env[v.args[0]] = math.log1p(math.exp(-abs(u))) + max(u, 0.0)
            elif kind == "sigmoid":
                u = tm.evaluate(hint[1], env, funcs)
                env[v.args[0]] = 1.0 / (1.0 + math.exp(-u))
        except KeyError:
            pass
    return env, funcs


def alternative_leaves(reg, path, leaves, n=12, seed=0):
    """Other concrete inputs on the same path, for replaying a `sat` verdict whose model does not reproduce.

    A goal over abstracted functions (exp, log, ...) can be refuted by the solver with a model in which the *atoms*
    carry the violation while the leaf values happen to sit on a point where the real functions agree (x = 0, T = 1).
    The verdict stays the solver's; these candidates only give the replay more points of the same path to confirm it
    on.  Candidates are perturbations of the model (and values away from 0 and 1) that satisfy the path condition when
    it is evaluated with the real functions."""
    import random as _r

    rng = _r.Random(seed)
    keys = sorted(leaves)
    out = []
    for k in range(n * 6):
        cand = {}
        for key in keys:
            v = float(leaves[key])
            if k % 2 == 0:
                cand[key] = v + rng.uniform(-1.0, 1.0) * (0.25 + abs(v))
            else:
                cand[key] = v * rng.uniform(0.3, 1.9) + rng.uniform(-0.7, 0.7)
        if path is not None:
            env, funcs = shortcut_env(reg, cand)
            if not path_holds(path, env, funcs):
                continue
        out.append(cand)
        if len(out) >= n:
            break
    return out


def path_holds(path, env, funcs, base=()):
    try:
        for c in list(base) + path.condition():
            if not tm.evaluate(c, env, funcs):
                return False
        return True
    except (KeyError, ZeroDivisionError, ValueError, OverflowError):
        return False
